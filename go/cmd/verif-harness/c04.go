package main

import (
	"bytes"
	"encoding/binary"
	"encoding/hex"
	"fmt"
	"github.com/datastax/go-cassandra-native-protocol/datacodec"
	"github.com/datastax/go-cassandra-native-protocol/message"
	"io"
	"strings"

	"github.com/datastax/go-cassandra-native-protocol/compression/lz4"
	"github.com/datastax/go-cassandra-native-protocol/datatype"
	"github.com/datastax/go-cassandra-native-protocol/frame"
	"github.com/datastax/go-cassandra-native-protocol/primitive"
	"github.com/datastax/go-cassandra-native-protocol/segment"
	"verif/internal/gen"
	"verif/internal/lp"
	"verif/internal/show"
)

func init() { modes["C04"] = runC04 }

type primReader struct {
	name string
	enc  func(g *gen.G, w *bytes.Buffer) // a valid encoding to mutate
	dec  func(r io.Reader, v primitive.ProtocolVersion) error
}

func primReaders() []primReader {
	return []primReader{
		{"string", func(g *gen.G, w *bytes.Buffer) { primitive.WriteString(g.Str(), w) },
			func(r io.Reader, _ primitive.ProtocolVersion) error { _, e := primitive.ReadString(r); return e }},
		{"longstring", func(g *gen.G, w *bytes.Buffer) { primitive.WriteLongString(g.Str(), w) },
			func(r io.Reader, _ primitive.ProtocolVersion) error { _, e := primitive.ReadLongString(r); return e }},
		{"bytes", func(g *gen.G, w *bytes.Buffer) { primitive.WriteBytes(g.Bytes(), w) },
			func(r io.Reader, _ primitive.ProtocolVersion) error { _, e := primitive.ReadBytes(r); return e }},
		{"shortbytes", func(g *gen.G, w *bytes.Buffer) { primitive.WriteShortBytes(g.Bytes(), w) },
			func(r io.Reader, _ primitive.ProtocolVersion) error { _, e := primitive.ReadShortBytes(r); return e }},
		{"stringlist", func(g *gen.G, w *bytes.Buffer) { primitive.WriteStringList(g.StrList(), w) },
			func(r io.Reader, _ primitive.ProtocolVersion) error { _, e := primitive.ReadStringList(r); return e }},
		{"stringmap", func(g *gen.G, w *bytes.Buffer) {
			primitive.WriteStringMap(map[string]string{g.Str(): g.Str(), g.Str(): g.Str()}, w)
		}, func(r io.Reader, _ primitive.ProtocolVersion) error { _, e := primitive.ReadStringMap(r); return e }},
		{"multimap", func(g *gen.G, w *bytes.Buffer) {
			primitive.WriteStringMultiMap(map[string][]string{g.Str(): g.StrList(), g.Str(): g.StrList()}, w)
		}, func(r io.Reader, _ primitive.ProtocolVersion) error {
			_, e := primitive.ReadStringMultiMap(r)
			return e
		}},
		{"bytesmap", func(g *gen.G, w *bytes.Buffer) {
			primitive.WriteBytesMap(map[string][]byte{g.Str(): g.Bytes(), g.Str(): g.Bytes()}, w)
		}, func(r io.Reader, _ primitive.ProtocolVersion) error { _, e := primitive.ReadBytesMap(r); return e }},
		{"uuid", func(g *gen.G, w *bytes.Buffer) { w.Write(g.R.Bytes(16)) },
			func(r io.Reader, _ primitive.ProtocolVersion) error { _, e := primitive.ReadUuid(r); return e }},
		{"inetaddr", func(g *gen.G, w *bytes.Buffer) { primitive.WriteInetAddr(g.IP(), w) },
			func(r io.Reader, _ primitive.ProtocolVersion) error { _, e := primitive.ReadInetAddr(r); return e }},
		{"inet", func(g *gen.G, w *bytes.Buffer) { primitive.WriteInet(g.Inet(), w) },
			func(r io.Reader, _ primitive.ProtocolVersion) error { _, e := primitive.ReadInet(r); return e }},
		{"value", func(g *gen.G, w *bytes.Buffer) { primitive.WriteValue(g.Value(), w, g.V) },
			func(r io.Reader, v primitive.ProtocolVersion) error { _, e := primitive.ReadValue(r, v); return e }},
		{"posvalues", func(g *gen.G, w *bytes.Buffer) { primitive.WritePositionalValues(g.Values(), w, g.V) },
			func(r io.Reader, v primitive.ProtocolVersion) error {
				_, e := primitive.ReadPositionalValues(r, v)
				return e
			}},
		{"namedvalues", func(g *gen.G, w *bytes.Buffer) {
			primitive.WriteNamedValues(map[string]*primitive.Value{g.Str(): g.Value(), g.Str(): g.Value()}, w, g.V)
		}, func(r io.Reader, v primitive.ProtocolVersion) error {
			_, e := primitive.ReadNamedValues(r, v)
			return e
		}},
		{"reasonmap", func(g *gen.G, w *bytes.Buffer) { primitive.WriteReasonMap(g.ReasonMap(), w) },
			func(r io.Reader, _ primitive.ProtocolVersion) error { _, e := primitive.ReadReasonMap(r); return e }},
		{"streamid", func(g *gen.G, w *bytes.Buffer) {
			primitive.WriteStreamId(int16(g.R.U64()), w, primitive.ProtocolVersion4)
		},
			func(r io.Reader, v primitive.ProtocolVersion) error { _, e := primitive.ReadStreamId(r, v); return e }},
		{"datatype", func(g *gen.G, w *bytes.Buffer) { datatype.WriteDataType(g.DataType(3), w, g.V) },
			func(r io.Reader, v primitive.ProtocolVersion) error { _, e := datatype.ReadDataType(r, v); return e }},
	}
}

func runC04(res *lp.Result) {
	res.Rule = "structure-aware mutations of valid encodings (length/count fields set to -1, -2, 0, boundary and huge values; truncation; bit " +
		"flips; insertions, deletions, swaps, splices) plus random bytes, fed to every decoding entry point of the frame codec: " +
		"DecodeFrame (none/LZ4/Snappy), DecodeRawFrame, DecodeHeader, every message body decoder for every version, ReadDataType and " +
		"every primitive reader. Each call runs under recover with a wall-clock limit and a heap watchdog; the outcome class " +
		"(value + bytes consumed / error / panic / timeout) is compared with the model's. Non-trivial = input that differs from a " +
		"valid encoding; distinct by (entry point, bytes)."
	rng := lp.NewRng(*seed)
	per, nmut := 2, 10
	if thorough() {
		per, nmut = 25, 40
	}
	var lines, expect, descr []string
	ask := func(l, want, d string) {
		lines = append(lines, l)
		expect = append(expect, want)
		descr = append(descr, d)
	}
	record := func(entry, input string, o outcome, okText string) string {
		res.Case(entry+":"+input, true)
		res.Count("outcome/" + entry + "/" + o.kind)
		switch o.kind {
		case "ok":
			return okText
		case "err":
			return "err"
		case "panic":
			res.Add(lp.Finding{Kind: "violation", What: entry + " panics on malformed input: " + firstWords(o.text), Input: entry + " " + input, Impl: o.text})
			return "panic"
		default:
			res.Add(lp.Finding{Kind: "violation", What: entry + " does not terminate within 10 s on a small input", Input: entry + " " + input})
			return "timeout"
		}
	}
	// inputs that once made a decoder misbehave (kept as a corpus that runs first)
	for _, c := range []struct{ codec, hexIn string }{
		// snappy block header declaring ~3 GB in a 16-byte body: snappy.Decode allocated it (repaired in /repo a284476)
		{"snappy", "c25f779a0200000010abfdfdb80d500c7ae7391f8d596a2002"},
		{"snappy", "8401000108000000" + "0a" + "ffffffff0f0102030405"},
		{"snappy", "8301000208000000" + "06" + "feffffff0f00"},
	} {
		m, _ := hex.DecodeString(c.hexIn)
		for _, cs := range compSettings() {
			if cs.name != c.codec {
				continue
			}
			currentInput.Store("frame dec " + cs.name + " " + c.hexIn)
			o := guarded(func() (string, int, error) {
				r := bytes.NewReader(m)
				d, err := cs.codec.DecodeFrame(r)
				if err != nil {
					return "", 0, err
				}
				return show.Frame(d), r.Len(), nil
			})
			record("DecodeFrame/"+cs.name, c.hexIn, o, "ok")
		}
	}
	// the whole table of [option] ids at the position of a column type, in every version: every id 0x0000..0x0040, the ids around
	// the custom-type marker and a few high ones. Whatever the decoder returns must also be USABLE: rendering it, measuring it,
	// encoding it again and asking for a value codec must not panic either (a decoder that hands out a half-built value only
	// moves the crash to its caller).
	for _, v := range gen.Versions {
		ids := []int{0x7fff, 0x8000, 0xfffe, 0xffff, 0x0100}
		for id := 0; id <= 0x40; id++ {
			ids = append(ids, id)
		}
		for _, tid := range ids {
			for _, nested := range []int{0, 0x20, 0x22, 0x31} { // bare; element of a list; of a set; field of a tuple
				var ty []byte
				switch nested {
				case 0:
					ty = be16(tid)
				case 0x31:
					ty = append(append(be16(0x31), be16(1)...), be16(tid)...)
				default:
					ty = append(be16(nested), be16(tid)...)
				}
				body := append(be32(2), be32(1)...) // RESULT Rows; flags: global table spec
				body = append(body, be32(1)...)     // one column
				body = append(body, specString("ks")...)
				body = append(body, specString("t")...)
				body = append(body, specString("c")...)
				body = append(body, ty...)
				body = append(body, be32(0)...) // no rows
				vb := byte(v) | 0x80
				m := specFrame(vb, v, 0x08, body)
				in := hx(m)
				currentInput.Store("frame dec none " + in)
				o := guarded(func() (string, int, error) {
					r := bytes.NewReader(m)
					d, err := compSettings()[0].codec.DecodeFrame(r)
					if err != nil {
						return "", 0, err
					}
					text := show.Frame(d)
					if rr, ok := d.Body.Message.(*message.RowsResult); ok && rr.Metadata != nil {
						for _, c := range rr.Metadata.Columns {
							if c != nil && c.Type != nil {
								_ = c.Type.AsCql()
								_ = c.Type.Code()
								datatype.LengthOfDataType(c.Type, v)
								datacodec.NewCodec(c.Type)
								c.Type.DeepCopyDataType()
							}
						}
					}
					var sink bytes.Buffer
					compSettings()[0].codec.EncodeFrame(d, &sink)
					return text, r.Len(), nil
				})
				want := record("DecodeFrame+use/none", in, o, fmt.Sprintf("ok %d %s", len(m)-o.rest, o.text))
				res.Count("option-id-table")
				ask("frame dec none "+in, want, fmt.Sprintf("RESULT Rows with column type id 0x%04x (nesting 0x%02x), version %d", tid, nested, v))
			}
		}
	}
	// frames through all codecs
	for _, v := range gen.Versions {
		for _, kind := range gen.Kinds {
			for _, cs := range compSettings() {
				if cs.name == "snappy" && v == primitive.ProtocolVersion5 {
					continue
				}
				for i := 0; i < per+1; i++ {
					g := &gen.G{R: rng, V: v}
					f := g.Frame(kind)
					if f == nil {
						continue
					}
					large := false
					if i == per {
						// a valid frame whose lists have more than 1024 entries (beyond what decoders allocate up front): the valid
						// encoding itself and a few mutations of it
						if cs.name != "none" || !g.Enlarge(f) {
							continue
						}
						large = true
					}
					if cs.comp != nil {
						f.SetCompress(true)
					}
					var buf bytes.Buffer
					if err := cs.codec.EncodeFrame(f, &buf); err != nil {
						continue
					}
					enc := append([]byte{}, buf.Bytes()...)
					hl := headerLen(v)
					muts := mutations(rng, enc, hl, nmut)
					if large {
						if len(muts) > 3 {
							muts = muts[:3]
						}
						muts = append([][]byte{enc}, muts...)
					}
					if rng.Intn(4) == 0 {
						muts = append(muts, rng.Bytes(rng.Intn(64)))
					}
					for _, m := range muts {
						in := hx(m)
						currentInput.Store("frame dec " + cs.name + " " + in)
						o := guarded(func() (string, int, error) {
							r := bytes.NewReader(m)
							d, err := cs.codec.DecodeFrame(r)
							if err != nil {
								return "", 0, err
							}
							return show.Frame(d), r.Len(), nil
						})
						want := record("DecodeFrame/"+cs.name, in, o, fmt.Sprintf("ok %d %s", len(m)-o.rest, o.text))
						if cs.comp != nil {
							// teach the model what the real block codec does on the chunk the limited reader delivers
							if h, err := cs.codec.DecodeHeader(bytes.NewReader(m)); err == nil && h.Flags.Contains(primitive.HeaderFlagCompressed) {
								// (a mutated version byte can change the header length: use the decoded header's own)
								hlen := h.Version.FrameHeaderLengthInBytes()
								if hlen > len(m) {
									hlen = len(m)
								}
								chunk := m[hlen:]
								if h.BodyLength < 0 {
									chunk = nil
								} else if int(h.BodyLength) < len(chunk) {
									chunk = chunk[:h.BodyLength]
								}
								zo := guarded(func() (string, int, error) { return zDecompress(cs.comp, chunk), 0, nil })
								if zo.kind == "ok" {
									ask("z clear", "ok", "")
									ask(zo.text, "ok", "")
								} else {
									record("DecompressWithLength/"+cs.name, hx(chunk), zo, "")
									continue
								}
							}
						}
						ask("frame dec "+flagOf(cs)+" "+in, want, "DecodeFrame/"+cs.name)
						if cs.comp == nil {
							o2 := guarded(func() (string, int, error) {
								r := bytes.NewReader(m)
								rf, err := cs.codec.DecodeRawFrame(r)
								if err != nil {
									return "", 0, err
								}
								return show.Header(rf.Header) + " " + hx(rf.Body), r.Len(), nil
							})
							ask("frame raw "+in, record("DecodeRawFrame", in, o2, fmt.Sprintf("ok %d %s", len(m)-o2.rest, o2.text)), "DecodeRawFrame")
							// the message body decoder alone, on the mutated body, for this and another version
							if len(m) > hl {
								body := m[hl:]
								for _, v2 := range []primitive.ProtocolVersion{v, gen.Versions[rng.Intn(len(gen.Versions))]} {
									op := f.Header.OpCode
									mc := msgCodecs[op]
									bi := hx(body)
									o3 := guarded(func() (string, int, error) {
										r := bytes.NewReader(body)
										d, err := mc.Decode(r, v2)
										if err != nil {
											return "", 0, err
										}
										return show.Message(d), r.Len(), nil
									})
									entry := fmt.Sprintf("message.Decode/op%d/v%d", op, v2)
									ask(fmt.Sprintf("frame msg %d %d %s", v2, op, bi), record(entry, bi, o3, fmt.Sprintf("ok %d %s", len(body)-o3.rest, o3.text)), entry)
								}
							}
						}
					}
				}
			}
		}
	}
	// primitive notations and type descriptors
	pn := 40
	if thorough() {
		pn = 600
	}
	for _, pr := range primReaders() {
		for i := 0; i < pn; i++ {
			v := gen.Versions[rng.Intn(len(gen.Versions))]
			g := &gen.G{R: rng, V: v}
			var w bytes.Buffer
			pr.enc(g, &w)
			enc := append([]byte{}, w.Bytes()...)
			muts := append(mutations(rng, enc, 0, 6), enc, rng.Bytes(rng.Intn(12)))
			for _, m := range muts {
				in := hx(m)
				currentInput.Store("prim " + pr.name + " " + in)
				o := guarded(func() (string, int, error) {
					r := bytes.NewReader(m)
					if err := pr.dec(r, v); err != nil {
						return "", 0, err
					}
					return "", r.Len(), nil
				})
				ask(fmt.Sprintf("prim %s %d %s", pr.name, v, in), record("Read/"+pr.name, in, o, fmt.Sprintf("ok %d", len(m)-o.rest)), "Read/"+pr.name)
			}
		}
	}
	answers, err := lp.Ask(*driverPath, lines)
	if err != nil {
		res.Add(lp.Finding{Kind: "disagreement", What: "driver failure: " + err.Error()})
		return
	}
	nd := 0
	var accepted [][]byte // malformed frames the implementation accepts while the model refuses them
	for i, a := range answers {
		exp := expect[i]
		if exp == "panic" && strings.HasPrefix(a, "panic") {
			continue
		}
		if exp == "timeout" {
			continue
		}
		if a != exp && nd < 30 {
			nd++
			res.Add(lp.Finding{Kind: "disagreement", What: "model/implementation differ on " + descr[i], Input: lines[i], Impl: exp, Model: a})
			if f := strings.Fields(lines[i]); len(f) == 4 && f[0] == "frame" && f[1] == "dec" && f[2] == "none" && a == "err" && strings.HasPrefix(exp, "ok") && len(accepted) < 3 {
				if b, err := hex.DecodeString(f[3]); err == nil {
					accepted = append(accepted, b)
				}
			}
		}
	}
	// search for a failing input behind such a disagreement: a frame that is accepted although a count in it is nonsense may
	// make the decoder loop or allocate by ANOTHER count in it — every small 32-bit field of the accepted frame is blown up
	// in turn and the result decoded under the wall-clock limit and the heap watchdog
	plain := frame.NewRawCodec()
	for _, base := range accepted {
		tried := 0
		for off := 9; off+4 <= len(base) && tried < 64; off++ {
			if v := binary.BigEndian.Uint32(base[off:]); v >= 1<<16 {
				continue
			}
			tried++
			m := append([]byte{}, base...)
			binary.BigEndian.PutUint32(m[off:], 0x7fffffff)
			in := hx(m)
			currentInput.Store("frame dec none " + in)
			res.Count("amplified-accepted-frames")
			o := guarded(func() (string, int, error) {
				_, err := plain.DecodeFrame(bytes.NewReader(m))
				return "", 0, err
			})
			if o.kind == "timeout" {
				res.Add(lp.Finding{Kind: "violation", What: "DecodeFrame/none does not terminate within 10 s on a small input", Input: "DecodeFrame/none " + in})
				break
			}
			if o.kind == "panic" {
				res.Add(lp.Finding{Kind: "violation", What: "DecodeFrame/none panics on malformed input: " + firstWords(o.text), Input: "DecodeFrame/none " + in, Impl: o.text})
				break
			}
		}
	}
	currentInput.Store("")
	// v5 segments whose header fields lie — with the CRCs recomputed, as any peer can do: declared uncompressed length larger or
	// smaller than what the block expands to, compressed length off by a few bytes, on compressible and incompressible payloads
	{
		segCodecs := map[string]segment.Codec{"none": segment.NewCodec(), "lz4": segment.NewCodecWithCompression(lz4.Compressor{})}
		for _, p := range [][]byte{bytes.Repeat([]byte("abcdefgh"), 25), rng.Bytes(200), {}, {1}} {
			c, cerr := lz4Raw(p)
			if cerr != nil {
				continue
			}
			for _, declared := range []int{0, 1, len(p) - 1, len(p), len(p) + 1, 201, 4096, 65536, 131071} {
				if declared < 0 {
					continue
				}
				for _, wire := range [][]byte{c, c[:len(c)/2], append(append([]byte{}, c...), 0, 0, 0), p} {
					for _, sc := range []bool{true, false} {
						in := refSegment(true, sc, wire, declared)
						id := hx(in)
						currentInput.Store("seg dec lz4 " + id)
						res.Count("segments/lying-headers")
						o := guarded(func() (string, int, error) {
							_, err := segCodecs["lz4"].DecodeSegment(bytes.NewReader(in))
							return "", 0, err
						})
						record("DecodeSegment/lz4", id, o, "ok")
					}
				}
			}
			for _, sc := range []bool{true, false} {
				in := refSegment(false, sc, p, 0)
				for _, cut := range []int{0, 3, 5, len(in) - 1} {
					if cut > len(in) {
						continue
					}
					m := in[:cut]
					currentInput.Store("seg dec none " + hx(m))
					o := guarded(func() (string, int, error) {
						_, err := segCodecs["none"].DecodeSegment(bytes.NewReader(m))
						return "", 0, err
					})
					record("DecodeSegment/none", hx(m), o, "ok")
				}
			}
		}
		currentInput.Store("")
	}
	// the CQL value decoders (datacodec): mutated encodings into untyped and typed destinations
	modes["C04V"](res)
}
