package main

import (
	"bytes"
	"context"
	"crypto/ecdsa"
	"crypto/elliptic"
	"crypto/rand"
	"crypto/tls"
	"crypto/x509"
	"crypto/x509/pkix"
	"math/big"
	"encoding/json"
	"fmt"
	"io"
	"net"
	"os"
	"os/exec"
	"runtime"
	"strings"
	"sync"
	"time"

	"github.com/datastax/go-cassandra-native-protocol/client"
	"github.com/datastax/go-cassandra-native-protocol/primitive"

	"verif/internal/lp"
)

// Shared infrastructure of the connection-level modes (C15, C16 part B).
//
// Every scenario runs in a CHILD PROCESS (this binary re-executed with VERIF_SCENARIO=<n>): a panic in one of the library's
// connection goroutines kills the whole process and cannot be recovered in-process; the parent then reports the crash, with
// the scenario and the first lines of the panic, as a violation.

type scenario struct {
	name string
	run  func(res *lp.Result)
}

// runScenarios: parent side. `child` is the mode name the child is started with.
func runScenarios(res *lp.Result, child string, n int, describe func(i int) string) {
	idx := make([]int, n)
	for i := range idx {
		idx[i] = i
	}
	runScenariosAt(res, child, idx, describe)
}

type scnOut struct {
	res    *lp.Result
	crash  string
	stderr string
}

// runChild runs one scenario in a child process
func runChild(child string, index int) scnOut {
	tmp, _ := os.CreateTemp("", "verif-scn-*.json")
	tmp.Close()
	defer os.Remove(tmp.Name())
	ctx, cancel := context.WithTimeout(context.Background(), 90*time.Second)
	defer cancel()
	cmd := exec.CommandContext(ctx, os.Args[0], "-tier", *tier, "-seed", fmt.Sprint(*seed), "-driver", *driverPath, "-gen", *genDir,
		"-out", tmp.Name(), child)
	cmd.Env = append(os.Environ(), fmt.Sprintf("VERIF_SCENARIO=%d", index))
	var eb bytes.Buffer
	cmd.Stderr = &eb
	cmd.Stdout = io.Discard
	err := cmd.Run()
	o := scnOut{stderr: eb.String()}
	if b, rerr := os.ReadFile(tmp.Name()); rerr == nil && len(b) > 0 {
		var r lp.Result
		if json.Unmarshal(b, &r) == nil {
			o.res = &r
		}
	}
	if err != nil && o.res == nil {
		if ctx.Err() != nil {
			o.crash = "scenario does not terminate within 90 s (deadlock)"
		} else {
			o.crash = "process crashed: " + crashLine(eb.String())
		}
	}
	return o
}

// runScenariosAt runs the child scenarios with the given indices, several at a time. The scenarios depend on wall-clock
// time (read timeouts, bounded waits): a finding of the parallel pass — other than a crash of the process, which load cannot
// cause — counts only if the same scenario, re-run ALONE, shows the same finding again; otherwise it is counted as
// unconfirmed and noted.
func runScenariosAt(res *lp.Result, child string, indices []int, describe func(i int) string) {
	n := len(indices)
	par := runtime.NumCPU()
	if par > 8 {
		par = 8
	}
	outs := make([]scnOut, n)
	var wg sync.WaitGroup
	sem := make(chan struct{}, par)
	for i := 0; i < n; i++ {
		wg.Add(1)
		sem <- struct{}{}
		go func(i int) {
			defer wg.Done()
			defer func() { <-sem }()
			outs[i] = runChild(child, indices[i])
		}(i)
	}
	wg.Wait()
	whats := func(o scnOut) map[string]bool {
		m := map[string]bool{}
		if o.crash != "" {
			m[o.crash] = true
		}
		if o.res != nil {
			for _, f := range o.res.Findings {
				m[f.Kind+"/"+f.What] = true
			}
		}
		return m
	}
	for i, o := range outs {
		d := describe(indices[i])
		res.Count("scenarios")
		suspicious := o.crash != "" || o.res == nil || len(o.res.Findings) > 0
		crashed := strings.HasPrefix(o.crash, "process crashed")
		var confirmed map[string]bool
		if suspicious && !crashed {
			confirmed = map[string]bool{}
			for attempt := 0; attempt < 2; attempt++ {
				for w := range whats(runChild(child, indices[i])) {
					confirmed[w] = true
				}
			}
			res.Count("scenarios/re-run-alone")
		}
		if o.crash != "" {
			if crashed || confirmed[o.crash] {
				res.Case(d, true)
				res.Add(lp.Finding{Kind: "violation", What: o.crash, Input: d, Impl: trunc(o.stderr)})
			} else {
				res.Count("unconfirmed/" + o.crash)
				res.Notes = append(res.Notes, "not reproduced when re-run alone (machine load?): "+o.crash+" ["+d+"]")
			}
			continue
		}
		if o.res == nil {
			res.Add(lp.Finding{Kind: "harness", What: "scenario produced no result", Input: d, Impl: trunc(o.stderr)})
			continue
		}
		res.Evaluations += o.res.Evaluations
		res.Nontrivial += o.res.Nontrivial
		for k, v := range o.res.Distribution {
			res.Distribution[k] += v
		}
		for _, f := range o.res.Findings {
			if confirmed == nil || confirmed[f.Kind+"/"+f.What] {
				res.Add(f)
			} else {
				res.Count("unconfirmed/" + f.What)
				res.Notes = append(res.Notes, "not reproduced when re-run alone (machine load?): "+f.What+" ["+d+"]")
			}
		}
		if len(res.Samples) < 12 {
			res.Samples = append(res.Samples, o.res.Samples...)
		}
	}
}

// crashLine: the panic message and the first library frame of a Go crash dump
func crashLine(stderr string) string {
	lines := strings.Split(stderr, "\n")
	msg := ""
	if strings.Contains(stderr, "WARNING: DATA RACE") {
		// the race detector's report: the first frame inside the library
		for _, m := range lines {
			if strings.Contains(m, "go-cassandra-native-protocol/") && strings.Contains(m, "(") {
				fn := strings.TrimSpace(m)
				if k := strings.Index(fn, "("); k > 0 {
					fn = fn[:k]
				}
				return "data race between concurrent codec calls in " + fn[strings.LastIndex(fn, "/")+1:]
			}
		}
		return "data race between concurrent codec calls"
	}
	for i, l := range lines {
		if strings.HasPrefix(l, "panic:") || strings.HasPrefix(l, "fatal error:") {
			msg = strings.TrimSpace(l)
			for _, m := range lines[i:] {
				if strings.Contains(m, "go-cassandra-native-protocol/") && strings.Contains(m, "(") {
					fn := strings.TrimSpace(m)
					if k := strings.Index(fn, "("); k > 0 {
						fn = fn[:k]
					}
					fn = fn[strings.LastIndex(fn, "/")+1:]
					return firstWordsN(msg, 12) + " in " + fn
				}
			}
			return firstWordsN(msg, 12)
		}
	}
	if len(lines) > 0 {
		return firstWordsN(lines[0], 12)
	}
	return "no output"
}

func firstWordsN(s string, n int) string {
	f := strings.Fields(s)
	if len(f) > n {
		f = f[:n]
	}
	return strings.Join(f, " ")
}

func scenarioIndex() int {
	var i int
	fmt.Sscan(os.Getenv("VERIF_SCENARIO"), &i)
	return i
}

// ---- servers, clients, a killable TCP proxy -------------------------------------------------------------------------

func freeAddr() string {
	l, err := net.Listen("tcp", "127.0.0.1:0")
	must(err)
	a := l.Addr().String()
	l.Close()
	return a
}

func startServer(creds *client.AuthCredentials, handlers ...client.RequestHandler) (*client.CqlServer, string, context.CancelFunc) {
	return startServerTLS(nil, creds, handlers...)
}

func startServerTLS(tlsCfg *tls.Config, creds *client.AuthCredentials, handlers ...client.RequestHandler) (*client.CqlServer, string, context.CancelFunc) {
	for try := 0; ; try++ {
		addr := freeAddr()
		srv := client.NewCqlServer(addr, creds)
		srv.TLSConfig = tlsCfg
		srv.AcceptTimeout = 5 * time.Second
		srv.IdleTimeout = time.Hour
		srv.RequestHandlers = handlers
		ctx, cancel := context.WithCancel(context.Background())
		if err := srv.Start(ctx); err != nil {
			cancel()
			if try > 20 {
				must(err)
			}
			continue
		}
		return srv, addr, cancel
	}
}

func newClient(addr string, creds *client.AuthCredentials, comp primitive.Compression, readTimeout time.Duration) *client.CqlClient {
	c := client.NewCqlClient(addr, creds)
	c.Compression = comp
	c.ReadTimeout = readTimeout
	c.ConnectTimeout = 5 * time.Second
	return c
}

// proxy forwards bytes between a listener and a target; kill() drops every connection abruptly ("losing the TCP peer")
type proxy struct {
	l     net.Listener
	mu    sync.Mutex
	conns []net.Conn
	dead  bool
	gate  sync.RWMutex // hold(): nothing more is read from the client side until release() (a peer that stops reading)
}

func (p *proxy) hold()    { p.gate.Lock() }
func (p *proxy) release() { p.gate.Unlock() }

// gatedCopy is io.Copy that does not read while the proxy is on hold
func (p *proxy) gatedCopy(dst io.Writer, src io.Reader) {
	buf := make([]byte, 32<<10)
	for {
		p.gate.RLock()
		p.gate.RUnlock()
		n, err := src.Read(buf)
		// (a Read that was already waiting when the hold began returns with whatever comes — data or the end of the stream: while
		// on hold none of it is passed on)
		p.gate.RLock()
		p.gate.RUnlock()
		if n > 0 {
			if _, werr := dst.Write(buf[:n]); werr != nil {
				return
			}
		}
		if err != nil {
			return
		}
	}
}

func startProxy(target string) (*proxy, string) {
	l, err := net.Listen("tcp", "127.0.0.1:0")
	must(err)
	p := &proxy{l: l}
	go func() {
		for {
			c, err := l.Accept()
			if err != nil {
				return
			}
			t, err := net.Dial("tcp", target)
			if err != nil {
				c.Close()
				continue
			}
			p.mu.Lock()
			if p.dead {
				p.mu.Unlock()
				reset(c)
				reset(t)
				continue
			}
			p.conns = append(p.conns, c, t)
			p.mu.Unlock()
			go func() { p.gatedCopy(t, c); t.Close() }()
			go func() { io.Copy(c, t); c.Close() }()
		}
	}()
	return p, l.Addr().String()
}

func reset(c net.Conn) {
	if tc, ok := c.(*net.TCPConn); ok {
		tc.SetLinger(0) // RST
	}
	c.Close()
}

// kill drops every connection, including those still being set up
func (p *proxy) kill() {
	p.mu.Lock()
	p.dead = true
	for _, c := range p.conns {
		reset(c)
	}
	p.conns = nil
	p.mu.Unlock()
}

func (p *proxy) stop() { p.kill(); p.l.Close() }

// within runs f and reports whether it returned in time
func within(d time.Duration, f func()) bool {
	done := make(chan struct{})
	go func() { f(); close(done) }()
	select {
	case <-done:
		return true
	case <-time.After(d):
		return false
	}
}

// goroutinesSettle waits until the number of goroutines is back to `base` (or below) and returns the last count
func goroutinesSettle(base int, d time.Duration) int {
	deadline := time.Now().Add(d)
	n := runtime.NumGoroutine()
	for time.Now().Before(deadline) {
		n = runtime.NumGoroutine()
		if n <= base {
			return n
		}
		time.Sleep(20 * time.Millisecond)
	}
	return n
}

func goroutineDump() string {
	buf := make([]byte, 1<<16)
	n := runtime.Stack(buf, true)
	var keep []string
	for _, g := range strings.Split(string(buf[:n]), "\n\n") {
		if strings.Contains(g, "go-cassandra-native-protocol/client") {
			lines := strings.Split(g, "\n")
			if len(lines) > 6 {
				lines = lines[:6]
			}
			keep = append(keep, strings.Join(lines, " / "))
		}
	}
	return strings.Join(keep, " || ")
}

func contextBackground() context.Context { return context.Background() }

// selfSignedTLS: a throw-away certificate for 127.0.0.1 (server side) and a client configuration that accepts it
func selfSignedTLS() (*tls.Config, *tls.Config) {
	key, err := ecdsa.GenerateKey(elliptic.P256(), rand.Reader)
	must(err)
	tmpl := &x509.Certificate{SerialNumber: big.NewInt(1), Subject: pkix.Name{CommonName: "verif"},
		NotBefore: time.Now().Add(-time.Hour), NotAfter: time.Now().Add(24 * time.Hour),
		KeyUsage: x509.KeyUsageDigitalSignature | x509.KeyUsageKeyEncipherment, ExtKeyUsage: []x509.ExtKeyUsage{x509.ExtKeyUsageServerAuth},
		IPAddresses: []net.IP{net.ParseIP("127.0.0.1")}}
	der, err := x509.CreateCertificate(rand.Reader, tmpl, tmpl, &key.PublicKey, key)
	must(err)
	cert := tls.Certificate{Certificate: [][]byte{der}, PrivateKey: key}
	return &tls.Config{Certificates: []tls.Certificate{cert}}, &tls.Config{InsecureSkipVerify: true}
}
