package main

import (
	"bytes"
	"fmt"

	"github.com/datastax/go-cassandra-native-protocol/compression/lz4"
	"github.com/datastax/go-cassandra-native-protocol/compression/snappy"
	gosnappy "github.com/golang/snappy"
	golz4 "github.com/pierrec/lz4/v4"

	"verif/internal/lp"
)

// C08, model side: the wrappers of Cql/Compress.lean are run on the same inputs as compression/lz4 and compression/snappy,
// with the third-party block functions supplied as oracle tables (every call the model can make is answered by the real
// library: CompressBlock with a CompressBlockBound destination, UncompressBlock for every buffer size of the doubling
// sequence, snappy.Encode/Decode).

func orBang(b []byte, err error) string {
	if err != nil {
		return "!"
	}
	return hx(b)
}

func lz4Block(src []byte) ([]byte, error) {
	dst := make([]byte, golz4.CompressBlockBound(len(src)))
	n, err := golz4.CompressBlock(src, dst, nil)
	return dst[:n], err
}

func showOut(out []byte, err error, unread int) string {
	if err != nil {
		return "err"
	}
	if unread >= 0 {
		return fmt.Sprintf("ok %s %d", hx(out), unread)
	}
	return "ok " + hx(out)
}

func runC08Model(res *lp.Result, inputs [][]byte) {
	var lines, expect, descr []string
	add := func(l, e, d string) { lines = append(lines, l); expect = append(expect, e); descr = append(descr, d) }
	l, s := lz4.Compressor{}, snappy.Compressor{}
	// the oracle entries the decompression loop of the model may ask for
	uncompressTable := func(src []byte) {
		if len(src) == 0 {
			return
		}
		for i := len(src) * 2; ; i *= 2 {
			dst := make([]byte, i)
			n, err := golz4.UncompressBlock(src, dst)
			if err != nil {
				add(fmt.Sprintf("zb u %s %d !", hx(src), i), "ok", "oracle")
			} else {
				add(fmt.Sprintf("zb u %s %d %s", hx(src), i, hx(dst[:n])), "ok", "oracle")
			}
			if err == nil || i > len(src)*255 {
				break
			}
		}
	}
	for k, in := range inputs {
		d := fmt.Sprintf("input %d, %d bytes", k, len(in))
		add("zb clear", "ok", d)
		// compression
		blk, berr := lz4Block(in)
		add("zb c "+hx(in)+" "+orBang(blk, berr), "ok", d)
		// the clauses of Lz4Law / SnappyLaw (Cql/Compress.lean) that the theorems assume of the third-party block functions
		law := func(ok bool, what string) {
			res.Count("law/" + what)
			if !ok {
				res.Add(lp.Finding{Kind: "disagreement", What: "assumed law of the third-party block codec not observed: " + what, Input: d})
			}
		}
		law(berr == nil, "compress_total")
		if berr == nil {
			law(len(blk) <= len(in)+len(in)/255+16, "bound")
			if len(in) == 0 {
				law(bytes.Equal(blk, []byte{0}), "compress_nil")
			} else {
				law(len(in) <= 255*len(blk), "ratio")
				law(!bytes.Equal(blk, []byte{0}), "block_ne_zero")
				dst := make([]byte, len(in))
				n, err := golz4.UncompressBlock(blk, dst)
				if lz4LibraryFails(in) {
					res.Count("law/uncompress_fits-violated-by-the-library")
					res.Add(lp.Finding{Kind: "violation", What: lz4LibraryWhat, Input: d + fmt.Sprintf(" (%d bytes, first bytes %x)", len(in), in[:minInt(len(in), 16)])})
				} else {
					law(err == nil && bytes.Equal(dst[:n], in), "uncompress_fits")
				}
				_, err = golz4.UncompressBlock(blk, make([]byte, len(in)-1))
				law(err != nil, "uncompress_short")
			}
		}
		var o bytes.Buffer
		e := l.Compress(bytes.NewBuffer(append([]byte{}, in...)), &o)
		add("cmp lz4 c "+hx(in), showOut(o.Bytes(), e, -1), d)
		res.Count("model/lz4/c")
		var o2 bytes.Buffer
		e = l.CompressWithLength(bytes.NewBuffer(append([]byte{}, in...)), &o2)
		add("cmp lz4 cwl "+hx(in), showOut(o2.Bytes(), e, -1), d)
		res.Count("model/lz4/cwl")
		enc := gosnappy.Encode(nil, in)
		add("zb e "+hx(in)+" "+hx(enc), "ok", d)
		dec0, derr0 := gosnappy.Decode(nil, enc)
		law(derr0 == nil && bytes.Equal(dec0, in), "snappy_decode_encode")
		dl, dlerr := gosnappy.DecodedLen(enc)
		law(dlerr == nil && dl == len(in), "snappy_decodedLen_encode")
		law(len(in) <= 64*len(enc), "snappy_ratio")
		law(len(enc) <= 32+len(in)+len(in)/6, "snappy_bound")
		var o3 bytes.Buffer
		e = s.CompressWithLength(bytes.NewBuffer(append([]byte{}, in...)), &o3)
		add("cmp snappy cwl "+hx(in), showOut(o3.Bytes(), e, -1), d)
		res.Count("model/snappy/cwl")
		// decompression of: the compressed forms, and the input itself taken as (mostly malformed) compressed data
		for _, c := range [][]byte{o.Bytes(), in} {
			uncompressTable(c)
			var out bytes.Buffer
			e := l.Decompress(bytes.NewReader(c), &out)
			add("cmp lz4 d "+hx(c), showOut(out.Bytes(), e, -1), d)
			res.Count("model/lz4/d")
		}
		for _, c := range [][]byte{o2.Bytes(), in, append(append([]byte{}, o2.Bytes()...), 7, 7)} {
			if len(c) > 4 {
				uncompressTable(c[4:])
			}
			var out bytes.Buffer
			rd := bytes.NewReader(c)
			e := l.DecompressWithLength(rd, &out)
			add("cmp lz4 dwl "+hx(c), showOut(out.Bytes(), e, rd.Len()), d)
			res.Count("model/lz4/dwl")
		}
		huge := append([]byte{0xab, 0xfd, 0xfd, 0xb8, 0x0d}, in...) // varint header declaring about 3 GB
		if len(huge) > 40 {
			huge = huge[:40]
		}
		for _, c := range [][]byte{o3.Bytes(), in, huge} {
			if n, lerr := gosnappy.DecodedLen(c); lerr != nil {
				add("zb l "+hx(c)+" !", "ok", d)
			} else {
				add(fmt.Sprintf("zb l %s %d", hx(c), n), "ok", d)
			}
			var dec []byte
			var derr error
			if n, lerr := gosnappy.DecodedLen(c); lerr == nil && n > 64*len(c)+1<<20 {
				derr = fmt.Errorf("not decoded by the harness: declared length %d", n) // the wrapper must refuse before decoding
			} else {
				dec, derr = gosnappy.Decode(nil, c)
			}
			add("zb d "+hx(c)+" "+orBang(dec, derr), "ok", d)
			var out bytes.Buffer
			rd := bytes.NewReader(c)
			e := s.DecompressWithLength(rd, &out)
			add("cmp snappy dwl "+hx(c), showOut(out.Bytes(), e, rd.Len()), d)
			res.Count("model/snappy/dwl")
		}
	}
	finishAsk(res, lines, expect, descr)
}

// lz4LibraryFails: the third-party block functions alone (no wrapper of the repository involved) do not restore their own
// output for this input, even with an ample destination buffer
func lz4LibraryFails(p []byte) bool {
	if len(p) == 0 {
		return false
	}
	blk, err := lz4Block(p)
	if err != nil {
		return true
	}
	dst := make([]byte, len(p)+4096)
	n, err := golz4.UncompressBlock(blk, dst)
	return err != nil || !bytes.Equal(dst[:n], p)
}

const lz4LibraryWhat = "third-party LZ4 block codec does not restore its own output (pierrec/lz4 CompressBlock then UncompressBlock)"
