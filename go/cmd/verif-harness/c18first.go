package main

import (
	"bytes"
	"fmt"
	"reflect"
	"strings"
	"sync"

	"github.com/datastax/go-cassandra-native-protocol/compression/lz4"
	"github.com/datastax/go-cassandra-native-protocol/datacodec"
	"github.com/datastax/go-cassandra-native-protocol/datatype"
	"github.com/datastax/go-cassandra-native-protocol/primitive"
	"github.com/datastax/go-cassandra-native-protocol/segment"

	"verif/internal/lp"
)

// C18, first use: the stress run of runC18 makes every call sequentially first (to know the expected result), which also
// warms up anything a codec might remember between calls. Here goroutines released together make the FIRST use, in this
// process, of Go types no codec has seen before: struct types made with reflect.StructOf, a fresh one per goroutine and
// iteration, encoded and decoded through ONE shared UDT codec and ONE shared tuple codec. Anything kept per Go type and
// filled in on first use (a field-index cache, …) is then written by several goroutines at once: the race detector reports
// it, and without the detector an unsynchronised map makes the runtime abort. Runs in a child process for that reason.
func init() { modes["C18FIRST"] = runC18FirstChild }

func runC18First(res *lp.Result) {
	runScenarios(res, "C18FIRST", 1, func(int) string {
		return "first use of fresh struct types (reflect.StructOf) by 16 goroutines at once through one shared UDT codec and one shared tuple codec"
	})
}

func runC18FirstChild(res *lp.Result) {
	id := "first use of fresh struct types by goroutines released together, shared UDT and tuple codecs"
	res.Case(id, true)
	udt, _ := datatype.NewUserDefined("ks", "t", []string{"a", "b"}, []datatype.DataType{datatype.Bigint, datatype.Blob})
	udtCodec, err1 := datacodec.NewUserDefined(udt)
	tupleCodec, err2 := datacodec.NewTuple(datatype.NewTuple(datatype.Bigint, datatype.Blob))
	if err1 != nil || err2 != nil {
		res.Add(lp.Finding{Kind: "harness", What: "cannot build the codecs", Input: id})
		return
	}
	goroutines, iters := 16, 150
	if thorough() {
		iters = 1500
	}
	// codecs nobody has used yet, shared by all goroutines: their first calls — successful ones and FAILING ones (an error message
	// names the CQL type, which a type object might build on demand) — happen concurrently
	var freshUdts []datacodec.Codec
	for k := 0; k < 40; k++ {
		ut, _ := datatype.NewUserDefined("ks", fmt.Sprintf("t%d", k), []string{"x", "y"}, []datatype.DataType{datatype.Int, datatype.NewList(datatype.Varchar)})
		if c, err := datacodec.NewUserDefined(ut); err == nil {
			freshUdts = append(freshUdts, c)
		}
	}
	segCodec := segment.NewCodecWithCompression(lz4.Compressor{})
	plainSeg := segment.NewCodec()
	var wg sync.WaitGroup
	var mu sync.Mutex
	start := make(chan struct{})
	for g := 0; g < goroutines; g++ {
		wg.Add(1)
		go func(g int) {
			defer wg.Done()
			<-start
			// the first segments of this process (checksum tables, if the checksums use any, are built now)
			for k := 0; k < 20; k++ {
				payload := []byte(fmt.Sprintf("goroutine %d segment %d %s", g, k, strings.Repeat("z", k*7)))
				for ci, sc := range []segment.Codec{plainSeg, segCodec} {
					var b bytes.Buffer
					err := sc.EncodeSegment(&segment.Segment{Header: &segment.Header{IsSelfContained: k%2 == 0}, Payload: &segment.Payload{UncompressedData: payload}}, &b)
					var d *segment.Segment
					if err == nil {
						d, err = sc.DecodeSegment(bytes.NewReader(b.Bytes()))
					}
					if err != nil || !bytes.Equal(d.Payload.UncompressedData, payload) {
						mu.Lock()
						res.Add(lp.Finding{Kind: "violation", What: "concurrent first use of a shared segment codec gives a wrong result: " + []string{"none", "lz4"}[ci],
							Input: fmt.Sprintf("%s; goroutine %d segment %d bytes %x", id, g, k, b.Bytes()), Impl: fmt.Sprint(err)})
						mu.Unlock()
					}
				}
			}
			for _, c := range freshUdts {
				// a failing encode and a failing decode (their results are errors either way), then a successful round trip
				c.Encode(map[string]interface{}{"x": "not-a-number"}, primitive.ProtocolVersion4)
				var wrong int
				c.Decode([]byte{0, 0, 0, 4, 0, 0, 0, 1, 0xff, 0xff, 0xff, 0xff}, &wrong, primitive.ProtocolVersion4)
				enc, err := c.Encode(map[string]interface{}{"x": int32(g), "y": []string{"a"}}, primitive.ProtocolVersion4)
				var out map[string]interface{}
				if err == nil {
					_, err = c.Decode(enc, &out, primitive.ProtocolVersion4)
				}
				if err != nil || fmt.Sprint(reflect.Indirect(reflect.ValueOf(out["x"]))) != fmt.Sprint(g) {
					mu.Lock()
					res.Add(lp.Finding{Kind: "violation", What: "concurrent first use of a shared UDT codec gives a wrong result", Input: fmt.Sprintf("%s; goroutine %d", id, g), Impl: fmt.Sprint(err, out)})
					mu.Unlock()
				}
			}
			for k := 0; k < iters; k++ {
				// a struct type nobody has used before: the UDT's fields by tag, plus a field that makes the type unique
				t := reflect.StructOf([]reflect.StructField{
					{Name: "A", Type: reflect.TypeOf(int64(0)), Tag: `cassandra:"a"`},
					{Name: "B", Type: reflect.TypeOf([]byte(nil)), Tag: `cassandra:"b"`},
					{Name: fmt.Sprintf("X%d_%d", g, k), Type: reflect.TypeOf(int8(0))},
				})
				want := int64(g*100000 + k)
				blob := []byte(fmt.Sprintf("goroutine %d iteration %d", g, k))
				for ci, codec := range []datacodec.Codec{udtCodec, tupleCodec} {
					src := reflect.New(t).Elem()
					src.Field(0).SetInt(want)
					src.Field(1).SetBytes(blob)
					enc, err := codec.Encode(src.Interface(), primitive.ProtocolVersion4)
					dst := reflect.New(t)
					if err == nil {
						_, err = codec.Decode(enc, dst.Interface(), primitive.ProtocolVersion4)
					}
					if err != nil || dst.Elem().Field(0).Int() != want || !bytes.Equal(dst.Elem().Field(1).Bytes(), blob) {
						mu.Lock()
						res.Add(lp.Finding{Kind: "violation", What: "concurrent first use of a Go type through a shared codec gives a wrong result: " + []string{"udt", "tuple"}[ci],
							Input: fmt.Sprintf("%s; goroutine %d iteration %d", id, g, k), Impl: fmt.Sprint(err, " ", dst.Elem().Interface())})
						mu.Unlock()
					}
				}
			}
		}(g)
	}
	close(start)
	wg.Wait()
	res.Count("first-use/struct-types")
}
