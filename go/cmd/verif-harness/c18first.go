package main

import (
	"bytes"
	"fmt"
	"reflect"
	"sync"

	"github.com/datastax/go-cassandra-native-protocol/datacodec"
	"github.com/datastax/go-cassandra-native-protocol/datatype"
	"github.com/datastax/go-cassandra-native-protocol/primitive"

	"verif/internal/lp"
)

// C18, first use: the stress run of runC18 makes every call sequentially first (to know the expected result), which also
// warms up anything a codec might remember between calls. Here goroutines released together make the FIRST use, in this
// process, of Go types no codec has seen before: struct types made with reflect.StructOf, a fresh one per goroutine and
// iteration, encoded and decoded through ONE shared UDT codec and ONE shared tuple codec. Anything kept per Go type and
// filled in on first use (a field-index cache, …) is then written by several goroutines at once: the race detector reports
// it, and without the detector an unsynchronised map makes the runtime abort. Runs in a child process for that reason.
func init() { modes["C18FIRST"] = runC18FirstChild }

func runC18First(res *lp.Result) {
	runScenarios(res, "C18FIRST", 1, func(int) string {
		return "first use of fresh struct types (reflect.StructOf) by 16 goroutines at once through one shared UDT codec and one shared tuple codec"
	})
}

func runC18FirstChild(res *lp.Result) {
	id := "first use of fresh struct types by goroutines released together, shared UDT and tuple codecs"
	res.Case(id, true)
	udt, _ := datatype.NewUserDefined("ks", "t", []string{"a", "b"}, []datatype.DataType{datatype.Bigint, datatype.Blob})
	udtCodec, err1 := datacodec.NewUserDefined(udt)
	tupleCodec, err2 := datacodec.NewTuple(datatype.NewTuple(datatype.Bigint, datatype.Blob))
	if err1 != nil || err2 != nil {
		res.Add(lp.Finding{Kind: "harness", What: "cannot build the codecs", Input: id})
		return
	}
	goroutines, iters := 16, 150
	if thorough() {
		iters = 1500
	}
	var wg sync.WaitGroup
	var mu sync.Mutex
	start := make(chan struct{})
	for g := 0; g < goroutines; g++ {
		wg.Add(1)
		go func(g int) {
			defer wg.Done()
			<-start
			for k := 0; k < iters; k++ {
				// a struct type nobody has used before: the UDT's fields by tag, plus a field that makes the type unique
				t := reflect.StructOf([]reflect.StructField{
					{Name: "A", Type: reflect.TypeOf(int64(0)), Tag: `cassandra:"a"`},
					{Name: "B", Type: reflect.TypeOf([]byte(nil)), Tag: `cassandra:"b"`},
					{Name: fmt.Sprintf("X%d_%d", g, k), Type: reflect.TypeOf(int8(0))},
				})
				want := int64(g*100000 + k)
				blob := []byte(fmt.Sprintf("goroutine %d iteration %d", g, k))
				for ci, codec := range []datacodec.Codec{udtCodec, tupleCodec} {
					src := reflect.New(t).Elem()
					src.Field(0).SetInt(want)
					src.Field(1).SetBytes(blob)
					enc, err := codec.Encode(src.Interface(), primitive.ProtocolVersion4)
					dst := reflect.New(t)
					if err == nil {
						_, err = codec.Decode(enc, dst.Interface(), primitive.ProtocolVersion4)
					}
					if err != nil || dst.Elem().Field(0).Int() != want || !bytes.Equal(dst.Elem().Field(1).Bytes(), blob) {
						mu.Lock()
						res.Add(lp.Finding{Kind: "violation", What: "concurrent first use of a Go type through a shared codec gives a wrong result: " + []string{"udt", "tuple"}[ci],
							Input: fmt.Sprintf("%s; goroutine %d iteration %d", id, g, k), Impl: fmt.Sprint(err, " ", dst.Elem().Interface())})
						mu.Unlock()
					}
				}
			}
		}(g)
	}
	close(start)
	wg.Wait()
	res.Count("first-use/struct-types")
}
