package main

// CQL value codecs (package datacodec): modes C11 (round trip), C12 (wire formats), C14 (NULL), C04V (no panics).
//
// cvalues.go        canonical value tree, canonical text, type and value generators, an independent serializer written
//                   from the specification (§5, §6 of native_protocol_v5.spec), the plumbing to the Lean model (`val` lines)
// cvalues_rep.go    Go representations: building a Go value of a given reflect.Type from a canonical value and reading any
//                   accepted Go value back
// cvalues_modes.go  the four modes

import (
	"bytes"
	"encoding/binary"
	"encoding/hex"
	"fmt"
	"math"
	"math/big"
	"math/bits"
	"net"
	"runtime/debug"
	"sort"
	"strconv"
	"strings"

	"github.com/datastax/go-cassandra-native-protocol/datatype"
	"github.com/datastax/go-cassandra-native-protocol/primitive"
	"verif/internal/lp"
)

func init() {
	modes["C11"] = runC11
	modes["C12"] = runC12
	modes["C14"] = runC14
	modes["C04V"] = runC04V
}

// ---------------------------------------------------------------------------------------------------------------------
// canonical values

type cvKind uint8

const (
	cvInt cvKind = iota // bigint counter int smallint tinyint varint; date (days), time (nanos), timestamp (millis)
	cvBool
	cvFloat
	cvDouble
	cvBytes // blob custom varchar ascii uuid timeuuid inet
	cvDecimal
	cvDuration
	cvList // list and set
	cvMap
	cvTuple
	cvUdt
)

// cv is a representation-independent CQL value; a nil *cv is NULL.
type cv struct {
	k            cvKind
	i            *big.Int // cvInt: the value; cvDecimal: the unscaled value
	b            bool
	bits         uint64 // IEEE bits (cvFloat: low 32)
	by           []byte
	inet         bool // cvBytes holding an address: rendered and serialized through To4() when that applies
	scale        int32
	months, days int32
	nanos        int64
	elems        []*cv // list/set elements, tuple/udt fields; nil = null
	keys, vals   []*cv // map entries, keys distinct by rendered text
}

func cvI(v *big.Int) *cv { return &cv{k: cvInt, i: new(big.Int).Set(v)} }
func cvI64(v int64) *cv  { return &cv{k: cvInt, i: big.NewInt(v)} }
func cvB(b []byte) *cv   { return &cv{k: cvBytes, by: append([]byte{}, b...)} }

func inetBytes(b []byte) []byte {
	if len(b) == net.IPv6len {
		if v4 := net.IP(b).To4(); v4 != nil {
			return v4
		}
	}
	return b
}

type kv struct{ k, v string }

// canonEntries: Go-map semantics (a later duplicate key replaces the earlier entry), then plain string order of the keys.
func canonEntries(es []kv) []kv {
	var out []kv
	for _, e := range es {
		found := false
		for i := range out {
			if out[i].k == e.k {
				out[i].v = e.v
				found = true
				break
			}
		}
		if !found {
			out = append(out, e)
		}
	}
	sort.SliceStable(out, func(i, j int) bool { return out[i].k < out[j].k })
	return out
}

// render produces the canonical text shared with the Lean driver (Driver/Val.lean).
func render(c *cv) string {
	var sb strings.Builder
	renderTo(&sb, c)
	return sb.String()
}

func renderTo(sb *strings.Builder, c *cv) {
	if c == nil {
		sb.WriteByte('~')
		return
	}
	list := func(open, close byte, xs []*cv) {
		sb.WriteByte(open)
		for i, x := range xs {
			if i > 0 {
				sb.WriteByte(',')
			}
			renderTo(sb, x)
		}
		sb.WriteByte(close)
	}
	switch c.k {
	case cvInt:
		sb.WriteString(c.i.String())
	case cvBool:
		if c.b {
			sb.WriteByte('T')
		} else {
			sb.WriteByte('F')
		}
	case cvFloat:
		fmt.Fprintf(sb, "f%08x", uint32(c.bits))
	case cvDouble:
		fmt.Fprintf(sb, "d%016x", c.bits)
	case cvBytes:
		b := c.by
		if c.inet {
			b = inetBytes(b)
		}
		if len(b) == 0 {
			sb.WriteByte('-')
		} else {
			sb.WriteString(hex.EncodeToString(b))
		}
	case cvDecimal:
		sb.WriteString(c.i.String())
		sb.WriteByte('e')
		sb.WriteString(strconv.FormatInt(int64(c.scale), 10))
	case cvDuration:
		fmt.Fprintf(sb, "%d/%d/%d", c.months, c.days, c.nanos)
	case cvList:
		list('[', ']', c.elems)
	case cvTuple:
		list('(', ')', c.elems)
	case cvUdt:
		list('<', '>', c.elems)
	case cvMap:
		es := make([]kv, len(c.keys))
		for i := range c.keys {
			es[i] = kv{render(c.keys[i]), render(c.vals[i])}
		}
		sb.WriteByte('{')
		for i, e := range canonEntries(es) {
			if i > 0 {
				sb.WriteByte(',')
			}
			sb.WriteString(e.k)
			sb.WriteByte(':')
			sb.WriteString(e.v)
		}
		sb.WriteByte('}')
	}
}

// hasDupKeys: some map inside c has two entries whose keys render alike (only values read back from Go maps with
// pointer keys can have that)
func hasDupKeys(c *cv) bool {
	if c == nil {
		return false
	}
	if c.k == cvMap {
		seen := map[string]bool{}
		for _, k := range c.keys {
			s := render(k)
			if seen[s] {
				return true
			}
			seen[s] = true
		}
	}
	for _, xs := range [][]*cv{c.elems, c.keys, c.vals} {
		for _, x := range xs {
			if hasDupKeys(x) {
				return true
			}
		}
	}
	return false
}

// hasMultiEntryMap: some map in the value has more than one entry (the order of the encoded entries is then Go's map order)
func hasMultiEntryMap(c *cv) bool {
	if c == nil {
		return false
	}
	if c.k == cvMap && len(c.keys) > 1 {
		return true
	}
	for _, xs := range [][]*cv{c.elems, c.keys, c.vals} {
		for _, x := range xs {
			if hasMultiEntryMap(x) {
				return true
			}
		}
	}
	return false
}

// ---------------------------------------------------------------------------------------------------------------------
// types

var cqlScalars = []datatype.DataType{
	datatype.Ascii, datatype.Bigint, datatype.Blob, datatype.Boolean, datatype.Counter, datatype.Date, datatype.Decimal,
	datatype.Double, datatype.Duration, datatype.Float, datatype.Inet, datatype.Int, datatype.Smallint, datatype.Time,
	datatype.Timestamp, datatype.Timeuuid, datatype.Tinyint, datatype.Uuid, datatype.Varchar, datatype.Varint,
}

var customType = datatype.NewCustom("org.example.verif.CustomType")

func allScalarTypes() []datatype.DataType {
	return append(append([]datatype.DataType{}, cqlScalars...), customType)
}

func isScalar(dt datatype.DataType) bool {
	switch dt.Code() {
	case primitive.DataTypeCodeList, primitive.DataTypeCodeSet, primitive.DataTypeCodeMap, primitive.DataTypeCodeTuple, primitive.DataTypeCodeUdt:
		return false
	}
	return true
}

// typeName: a compact, stable name (UDTs by their field types only)
func typeName(dt datatype.DataType) string {
	names := func(ts []datatype.DataType) string {
		s := make([]string, len(ts))
		for i, t := range ts {
			s[i] = typeName(t)
		}
		return strings.Join(s, ",")
	}
	switch t := dt.(type) {
	case *datatype.List:
		return "list<" + typeName(t.ElementType) + ">"
	case *datatype.Set:
		return "set<" + typeName(t.ElementType) + ">"
	case *datatype.Map:
		return "map<" + typeName(t.KeyType) + "," + typeName(t.ValueType) + ">"
	case *datatype.Tuple:
		return "tuple<" + names(t.FieldTypes) + ">"
	case *datatype.UserDefined:
		return "udt<" + names(t.FieldTypes) + ">"
	case *datatype.Custom:
		return "custom"
	}
	return dt.AsCql()
}

func shortType(dt datatype.DataType) string {
	s := typeName(dt)
	if len(s) > 56 {
		s = s[:56] + "…"
	}
	return s
}

// kindName: the outermost constructor, for the distributions
func kindName(dt datatype.DataType) string {
	switch dt.Code() {
	case primitive.DataTypeCodeList:
		return "list"
	case primitive.DataTypeCodeSet:
		return "set"
	case primitive.DataTypeCodeMap:
		return "map"
	case primitive.DataTypeCodeTuple:
		return "tuple"
	case primitive.DataTypeCodeUdt:
		return "udt"
	}
	return typeName(dt)
}

func children(dt datatype.DataType) []datatype.DataType {
	switch t := dt.(type) {
	case *datatype.List:
		return []datatype.DataType{t.ElementType}
	case *datatype.Set:
		return []datatype.DataType{t.ElementType}
	case *datatype.Map:
		return []datatype.DataType{t.KeyType, t.ValueType}
	case *datatype.Tuple:
		return t.FieldTypes
	case *datatype.UserDefined:
		return t.FieldTypes
	}
	return nil
}

func anyType(dt datatype.DataType, p func(datatype.DataType) bool) bool {
	if p(dt) {
		return true
	}
	for _, c := range children(dt) {
		if anyType(c, p) {
			return true
		}
	}
	return false
}

// hashableKey: the key type's preferred Go type, made nillable the way the library does, can be a Go map key
func hashableKey(dt datatype.DataType) bool {
	if !isScalar(dt) {
		return false
	}
	switch dt.Code() {
	case primitive.DataTypeCodeBlob, primitive.DataTypeCodeCustom, primitive.DataTypeCodeInet:
		return false
	}
	return true
}

func hasUnhashableKey(dt datatype.DataType) bool {
	return anyType(dt, func(t datatype.DataType) bool {
		m, ok := t.(*datatype.Map)
		return ok && !hashableKey(m.KeyType)
	})
}

func hasEmptyComposite(dt datatype.DataType) bool {
	return anyType(dt, func(t datatype.DataType) bool {
		switch x := t.(type) {
		case *datatype.Tuple:
			return len(x.FieldTypes) == 0
		case *datatype.UserDefined:
			return len(x.FieldTypes) == 0
		}
		return false
	})
}

func hasCode(dt datatype.DataType, code primitive.DataTypeCode) bool {
	return anyType(dt, func(t datatype.DataType) bool { return t.Code() == code })
}

var udtFieldNames = []string{"a", "b", "c", "id", "name", "value", "Mixed", "camelCase", "with space", "x-y", "ünï", "f1", "F2", "snake_case", "日本"}

func genScalarType(rng *lp.Rng) datatype.DataType {
	i := rng.Intn(len(cqlScalars) + 1)
	if i == len(cqlScalars) {
		return customType
	}
	return cqlScalars[i]
}

func genKeyType(rng *lp.Rng) datatype.DataType {
	switch rng.Intn(36) {
	case 0:
		return datatype.Blob
	case 1:
		return datatype.Inet
	case 2:
		return datatype.NewList(datatype.Int)
	}
	for {
		if t := genScalarType(rng); hashableKey(t) {
			return t
		}
	}
}

func genWidth(rng *lp.Rng) int {
	if rng.Intn(40) == 0 {
		return 0
	}
	return 1 + rng.Intn(3)
}

var udtCounter int

// genType: all 20 scalar types and custom; list/set/map/tuple/udt nested to `depth`, width ≤ 3
func genType(rng *lp.Rng, depth int) datatype.DataType {
	if depth <= 0 || rng.Intn(100) < 35 {
		return genScalarType(rng)
	}
	switch rng.Intn(5) {
	case 0:
		return datatype.NewList(genType(rng, depth-1))
	case 1:
		return datatype.NewSet(genType(rng, depth-1))
	case 2:
		return datatype.NewMap(genKeyType(rng), genType(rng, depth-1))
	case 3:
		n := genWidth(rng)
		fs := make([]datatype.DataType, n)
		for i := range fs {
			fs[i] = genType(rng, depth-1)
		}
		return datatype.NewTuple(fs...)
	}
	n := genWidth(rng)
	fs := make([]datatype.DataType, n)
	names := make([]string, 0, n)
	for i := range fs {
		fs[i] = genType(rng, depth-1)
		for {
			cand := udtFieldNames[rng.Intn(len(udtFieldNames))]
			dup := false
			for _, x := range names {
				dup = dup || strings.EqualFold(x, cand)
			}
			if !dup {
				names = append(names, cand)
				break
			}
		}
	}
	udtCounter++
	// (a name identifies a type within one schema version only: a type dropped and created again, or two clusters, give different
	// definitions under one name in one process — a few names are used over and over)
	u, err := datatype.NewUserDefined("ks", fmt.Sprintf("udt%d", udtCounter%3), names, fs)
	must(err)
	return u
}

func typeHex(dt datatype.DataType, version primitive.ProtocolVersion) (string, error) {
	buf := &bytes.Buffer{}
	if err := datatype.WriteDataType(dt, buf, version); err != nil {
		return "", err
	}
	return hex.EncodeToString(buf.Bytes()), nil
}

var cqlVersions = []primitive.ProtocolVersion{primitive.ProtocolVersion2, primitive.ProtocolVersion3, primitive.ProtocolVersion4,
	primitive.ProtocolVersion5, primitive.ProtocolVersionDse1, primitive.ProtocolVersionDse2}

func verName(v primitive.ProtocolVersion) string {
	switch v {
	case primitive.ProtocolVersionDse1:
		return "dse1"
	case primitive.ProtocolVersionDse2:
		return "dse2"
	}
	return fmt.Sprintf("v%d", int(v))
}

// ---------------------------------------------------------------------------------------------------------------------
// values

func pow2(k int) *big.Int { return new(big.Int).Lsh(big.NewInt(1), uint(k)) }

func dedupInts(xs []*big.Int) []*big.Int {
	seen := map[string]bool{}
	var out []*big.Int
	for _, x := range xs {
		if s := x.String(); !seen[s] {
			seen[s] = true
			out = append(out, x)
		}
	}
	return out
}

// intSpecials: zero, ±1, min, max and every power-of-two boundary ±1 of a two's complement integer of w bits
func intSpecials(w int) []*big.Int {
	lo, hi := new(big.Int).Neg(pow2(w-1)), new(big.Int).Sub(pow2(w-1), big.NewInt(1))
	out := []*big.Int{big.NewInt(0), big.NewInt(1), big.NewInt(-1), lo, hi, new(big.Int).Add(lo, big.NewInt(1)), new(big.Int).Sub(hi, big.NewInt(1))}
	for k := 1; k < w; k++ {
		for d := int64(-1); d <= 1; d++ {
			p := new(big.Int).Add(pow2(k), big.NewInt(d))
			for _, v := range []*big.Int{p, new(big.Int).Neg(p)} {
				if v.Cmp(lo) >= 0 && v.Cmp(hi) <= 0 {
					out = append(out, v)
				}
			}
		}
	}
	return dedupInts(out)
}

const timeMaxNanos = 86399999999999

func timeSpecials() []*big.Int {
	out := []*big.Int{big.NewInt(0), big.NewInt(1), big.NewInt(timeMaxNanos), big.NewInt(timeMaxNanos - 1), big.NewInt(3600e9), big.NewInt(12*3600e9 + 34*60e9 + 56e9 + 789012345)}
	for k := 1; k < 47; k++ {
		for d := int64(-1); d <= 1; d++ {
			if p := new(big.Int).Add(pow2(k), big.NewInt(d)); p.Cmp(big.NewInt(timeMaxNanos)) <= 0 {
				out = append(out, p)
			}
		}
	}
	return dedupInts(out)
}

func varintSpecials() []*big.Int {
	var out []*big.Int
	for _, v := range []int64{0, 1, -1, 127, 128, 129, -127, -128, -129, 255, 256, 257, -255, -256, -257, 32767, 32768, -32768, -32769, 65535, 65536, -65536} {
		out = append(out, big.NewInt(v))
	}
	for _, k := range []int{7, 8, 15, 16, 23, 24, 31, 32, 39, 40, 47, 48, 55, 56, 63, 64, 65, 71, 72, 127, 128, 255, 256, 299} {
		for d := int64(-1); d <= 1; d++ {
			p := new(big.Int).Add(pow2(k), big.NewInt(d))
			out = append(out, p, new(big.Int).Neg(p))
		}
	}
	return dedupInts(out)
}

func randBig(rng *lp.Rng, maxBits int) *big.Int {
	n := 1 + rng.Intn(maxBits)
	v := new(big.Int).SetBytes(rng.Bytes((n + 7) / 8))
	v.Rsh(v, uint((8-n%8)%8))
	if rng.Bool() {
		v.Neg(v)
	}
	return v
}

func randIntW(rng *lp.Rng, w int) *big.Int {
	v := randBig(rng, w-1)
	return v
}

var floatSpecials = []uint64{0, 0x80000000, 0x3f800000, 0xbf800000, 0x7f800000, 0xff800000, 0x7fc00000, 0xffc00000, 0x7fc00001, 0x7f800001, 0x7fffffff,
	1, 0x80000001, 0x007fffff, 0x00800000, 0x7f7fffff, 0xff7fffff, 0x3dcccccd, 0x40490fdb, 0x4b800000, 0x33800000}

var doubleSpecials = []uint64{0, 0x8000000000000000, 0x3ff0000000000000, 0xbff0000000000000, 0x7ff0000000000000, 0xfff0000000000000,
	0x7ff8000000000000, 0xfff8000000000000, 0x7ff8000000000001, 0x7ff0000000000001, 0x7fffffffffffffff, 1, 0x8000000000000001,
	0x000fffffffffffff, 0x0010000000000000, 0x7fefffffffffffff, 0xffefffffffffffff, 0x3fb999999999999a, 0x400921fb54442d18,
	0x47efffffe0000000, 0x36a0000000000000, 0x3ff0000000000001, 0x4340000000000000}

var textSpecials = []string{"", "a", " ", "hello world", "héllo wörld ✓", "日本語のテキスト", "🎉🚀 emoji", "a\x00b", "tab\tnew\nline", "'quoted\" \\ back",
	strings.Repeat("long text ", 40), strings.Repeat("ü", 150), "\u00a0\u2028\ufeff", "\U0010ffff"}

var asciiSpecials = []string{"", "a", " ", "hello world", "a\x00b", "\x7f\x01", "tab\tnew\nline", strings.Repeat("0123456789", 30)}

func blobSpecials() [][]byte {
	return [][]byte{{}, {0}, {0xff}, {0x80}, {1, 2, 3}, bytes.Repeat([]byte{0xab}, 16), {0xff, 0xfe, 0xfd, 0x80, 0xc0}, bytes.Repeat([]byte{0, 1, 2, 3, 0xff}, 60)}
}

func inetSpecials() [][]byte {
	return [][]byte{{0, 0, 0, 0}, {127, 0, 0, 1}, {255, 255, 255, 255}, {192, 168, 1, 10}, {1, 2, 3, 4},
		make([]byte, 16), append(make([]byte, 15), 1), bytes.Repeat([]byte{0xff}, 16),
		{0x20, 0x01, 0x0d, 0xb8, 0, 0, 0, 0, 0, 0, 0, 0, 0, 0, 0, 1},
		{0xfe, 0x80, 0, 0, 0, 0, 0, 0, 0x02, 0x11, 0x22, 0xff, 0xfe, 0x33, 0x44, 0x55},
		{0, 0, 0, 0, 0, 0, 0, 0, 0, 0, 0xff, 0xff, 1, 2, 3, 4}, // ::ffff:1.2.3.4 in its 16-byte form
		{0, 0, 0, 0, 0, 0, 0, 0, 0, 0, 0, 0, 1, 2, 3, 4}}
}

func uuidSpecials() [][]byte {
	return [][]byte{make([]byte, 16), bytes.Repeat([]byte{0xff}, 16),
		{0x12, 0x3e, 0x45, 0x67, 0xe8, 0x9b, 0x12, 0xd3, 0xa4, 0x56, 0x42, 0x66, 0x14, 0x17, 0x40, 0x00},
		{0x50, 0x55, 0x4d, 0x6e, 0x29, 0xbb, 0x11, 0xe5, 0xb3, 0x45, 0xfe, 0xff, 0x81, 0x9c, 0xdc, 0x9f}}
}

var scaleSpecials = []int32{0, 1, -1, 2, 10, -10, math.MinInt32, math.MaxInt32, math.MinInt32 + 1, math.MaxInt32 - 1, 127, 128, 255, 256, 65536}

func intWidth(code primitive.DataTypeCode) int {
	switch code {
	case primitive.DataTypeCodeBigint, primitive.DataTypeCodeCounter, primitive.DataTypeCodeTimestamp:
		return 64
	case primitive.DataTypeCodeInt, primitive.DataTypeCodeDate:
		return 32
	case primitive.DataTypeCodeSmallint:
		return 16
	case primitive.DataTypeCodeTinyint:
		return 8
	}
	return 0
}

func mkInet(b []byte) *cv  { c := cvB(b); c.inet = true; return c }
func mkFloat(b uint64) *cv { return &cv{k: cvFloat, bits: b & 0xffffffff} }
func mkDouble(b uint64) *cv {
	return &cv{k: cvDouble, bits: b}
}

// scalarSpecials: the boundary values of a scalar type, all of them valid values of the type
func scalarSpecials(dt datatype.DataType) []*cv {
	var out []*cv
	code := dt.Code()
	if w := intWidth(code); w > 0 {
		for _, v := range intSpecials(w) {
			out = append(out, cvI(v))
		}
		return out
	}
	switch code {
	case primitive.DataTypeCodeTime:
		for _, v := range timeSpecials() {
			out = append(out, cvI(v))
		}
	case primitive.DataTypeCodeVarint:
		for _, v := range varintSpecials() {
			out = append(out, cvI(v))
		}
	case primitive.DataTypeCodeBoolean:
		out = []*cv{{k: cvBool, b: false}, {k: cvBool, b: true}}
	case primitive.DataTypeCodeFloat:
		for _, b := range floatSpecials {
			out = append(out, mkFloat(b))
		}
	case primitive.DataTypeCodeDouble:
		for _, b := range doubleSpecials {
			out = append(out, mkDouble(b))
		}
	case primitive.DataTypeCodeVarchar:
		for _, s := range textSpecials {
			out = append(out, cvB([]byte(s)))
		}
	case primitive.DataTypeCodeAscii:
		for _, s := range asciiSpecials {
			out = append(out, cvB([]byte(s)))
		}
	case primitive.DataTypeCodeBlob, primitive.DataTypeCodeCustom:
		for _, b := range blobSpecials() {
			out = append(out, cvB(b))
		}
	case primitive.DataTypeCodeInet:
		for _, b := range inetSpecials() {
			out = append(out, mkInet(b))
		}
	case primitive.DataTypeCodeUuid, primitive.DataTypeCodeTimeuuid:
		for _, b := range uuidSpecials() {
			out = append(out, cvB(b))
		}
	case primitive.DataTypeCodeDecimal:
		us := varintSpecials()
		for i, s := range scaleSpecials {
			out = append(out, &cv{k: cvDecimal, i: us[(i*7)%len(us)], scale: s})
		}
		for i, u := range us {
			out = append(out, &cv{k: cvDecimal, i: u, scale: scaleSpecials[i%len(scaleSpecials)]})
		}
	case primitive.DataTypeCodeDuration:
		i32 := []int32{0, 1, -1, math.MaxInt32, math.MinInt32, 127, 128, -128, -129, 65535, 65536, 1 << 30, -(1 << 30)}
		i64 := []int64{0, 1, -1, math.MaxInt64, math.MinInt64, 63, 64, -64, -65, 8191, 8192, 1 << 55, 1 << 56, -(1 << 56), 1 << 62, -(1 << 62), math.MaxInt64 - 1, math.MinInt64 + 1, 1e9, 86400e9}
		for i, m := range i32 {
			out = append(out, &cv{k: cvDuration, months: m, days: i32[(i*5+1)%len(i32)], nanos: i64[(i*3+2)%len(i64)]})
		}
		for i, n := range i64 {
			out = append(out, &cv{k: cvDuration, months: i32[(i*2)%len(i32)], days: i32[(i*3+1)%len(i32)], nanos: n})
		}
		out = append(out, &cv{k: cvDuration, months: 128000}, &cv{k: cvDuration, months: -1, days: -2, nanos: -3}, &cv{k: cvDuration, months: 1, days: -1, nanos: 1})
	}
	return out
}

var runeRanges = [][2]rune{{0x20, 0x7e}, {0x20, 0x7e}, {0xa0, 0x17f}, {0x3040, 0x30ff}, {0x4e00, 0x4fff}, {0x1f600, 0x1f64f}, {0x0, 0x1f}}

func randText(rng *lp.Rng, asciiOnly bool) string {
	n := rng.Intn(24)
	var sb strings.Builder
	for i := 0; i < n; i++ {
		r := runeRanges[rng.Intn(len(runeRanges))]
		if asciiOnly {
			r = [2]rune{0, 0x7f}
		}
		sb.WriteRune(r[0] + rune(rng.Intn(int(r[1]-r[0])+1)))
	}
	return sb.String()
}

// genScalarValue: half of the time one of the boundary values, otherwise a random valid value
func genScalarValue(rng *lp.Rng, dt datatype.DataType) *cv {
	if rng.Bool() {
		sp := scalarSpecials(dt)
		return sp[rng.Intn(len(sp))]
	}
	code := dt.Code()
	if w := intWidth(code); w > 0 {
		return cvI(randIntW(rng, w))
	}
	switch code {
	case primitive.DataTypeCodeTime:
		return cvI64(int64(rng.U64() % (timeMaxNanos + 1)))
	case primitive.DataTypeCodeVarint:
		return cvI(randBig(rng, 300))
	case primitive.DataTypeCodeBoolean:
		return &cv{k: cvBool, b: rng.Bool()}
	case primitive.DataTypeCodeFloat:
		return mkFloat(rng.U64())
	case primitive.DataTypeCodeDouble:
		return mkDouble(rng.U64())
	case primitive.DataTypeCodeVarchar:
		return cvB([]byte(randText(rng, false)))
	case primitive.DataTypeCodeAscii:
		return cvB([]byte(randText(rng, true)))
	case primitive.DataTypeCodeBlob, primitive.DataTypeCodeCustom:
		return cvB(rng.Bytes(rng.Intn(40)))
	case primitive.DataTypeCodeInet:
		if rng.Bool() {
			return mkInet(rng.Bytes(4))
		}
		return mkInet(rng.Bytes(16))
	case primitive.DataTypeCodeUuid, primitive.DataTypeCodeTimeuuid:
		return cvB(rng.Bytes(16))
	case primitive.DataTypeCodeDecimal:
		s := int32(rng.Intn(40) - 20)
		if rng.Intn(4) == 0 {
			s = int32(uint32(rng.U64()))
		}
		return &cv{k: cvDecimal, i: randBig(rng, 200), scale: s}
	case primitive.DataTypeCodeDuration:
		return &cv{k: cvDuration, months: int32(randIntW(rng, 32).Int64()), days: int32(randIntW(rng, 32).Int64()), nanos: randIntW(rng, 64).Int64()}
	}
	panic("harness: no value generator for " + typeName(dt))
}

type valueGen struct {
	rng      *lp.Rng
	version  primitive.ProtocolVersion
	nullProb int // one in nullProb collection elements / fields is null (0 = never)
	fixedKey int // > 0: list-typed map keys get exactly this many elements (so that they fit a Go array type)
}

func (g *valueGen) child(dt datatype.DataType, inCollection bool) *cv {
	if g.nullProb > 0 {
		p := g.nullProb
		if inCollection && g.version < primitive.ProtocolVersion3 {
			p *= 8 // rare: the encoder must refuse it
		}
		if g.rng.Intn(p) == 0 {
			return nil
		}
	}
	return g.value(dt)
}

// value: a non-null value of the type
func (g *valueGen) value(dt datatype.DataType) *cv {
	switch t := dt.(type) {
	case *datatype.List:
		return g.coll(t.ElementType)
	case *datatype.Set:
		return g.coll(t.ElementType)
	case *datatype.Map:
		n := g.rng.Intn(5)
		m := &cv{k: cvMap, keys: []*cv{}, vals: []*cv{}}
		seen := map[string]bool{}
		for i := 0; i < n; i++ {
			var k *cv
			if g.nullProb > 0 && g.version >= primitive.ProtocolVersion3 && g.rng.Intn(g.nullProb*6) == 0 {
				k = nil
			} else if _, isList := t.KeyType.(*datatype.List); isList && g.fixedKey > 0 {
				k = &cv{k: cvList, elems: make([]*cv, g.fixedKey)}
				for j := range k.elems {
					k.elems[j] = g.value(t.KeyType.(*datatype.List).ElementType)
				}
			} else {
				k = g.value(t.KeyType)
			}
			if s := render(k); !seen[s] {
				seen[s] = true
				m.keys = append(m.keys, k)
				m.vals = append(m.vals, g.child(t.ValueType, true))
			}
		}
		return m
	case *datatype.Tuple:
		c := &cv{k: cvTuple, elems: make([]*cv, len(t.FieldTypes))}
		for i, ft := range t.FieldTypes {
			c.elems[i] = g.child(ft, false)
		}
		return c
	case *datatype.UserDefined:
		c := &cv{k: cvUdt, elems: make([]*cv, len(t.FieldTypes))}
		for i, ft := range t.FieldTypes {
			c.elems[i] = g.child(ft, false)
		}
		return c
	}
	return genScalarValue(g.rng, dt)
}

func (g *valueGen) coll(et datatype.DataType) *cv {
	n := g.rng.Intn(5)
	c := &cv{k: cvList, elems: make([]*cv, n)}
	for i := range c.elems {
		c.elems[i] = g.child(et, true)
	}
	return c
}

// encodesToNil: what the library's Encode returns nil bytes for (NULL, and — a finding — a tuple/UDT without fields)
func encodesToNil(c *cv, dt datatype.DataType) bool {
	if c == nil {
		return true
	}
	switch t := dt.(type) {
	case *datatype.Tuple:
		return len(t.FieldTypes) == 0
	case *datatype.UserDefined:
		return len(t.FieldTypes) == 0
	}
	if c.k == cvBytes && c.inet && len(c.by) == 0 {
		return true
	}
	return false
}

// v2Refused: the value has a list/set/map with an element, key or value that encodes to nil; protocol v2 cannot express it
// and the library documents that it returns an error
func v2Refused(c *cv, dt datatype.DataType) bool {
	if c == nil {
		return false
	}
	switch t := dt.(type) {
	case *datatype.List:
		for _, e := range c.elems {
			if encodesToNil(e, t.ElementType) || v2Refused(e, t.ElementType) {
				return true
			}
		}
	case *datatype.Set:
		for _, e := range c.elems {
			if encodesToNil(e, t.ElementType) || v2Refused(e, t.ElementType) {
				return true
			}
		}
	case *datatype.Map:
		for i := range c.keys {
			if encodesToNil(c.keys[i], t.KeyType) || encodesToNil(c.vals[i], t.ValueType) || v2Refused(c.keys[i], t.KeyType) || v2Refused(c.vals[i], t.ValueType) {
				return true
			}
		}
	case *datatype.Tuple:
		for i, e := range c.elems {
			if v2Refused(e, t.FieldTypes[i]) {
				return true
			}
		}
	case *datatype.UserDefined:
		for i, e := range c.elems {
			if v2Refused(e, t.FieldTypes[i]) {
				return true
			}
		}
	}
	return false
}

// isNontrivialValue: not NULL, and not the zero / empty value of its type
func isNontrivialValue(c *cv) bool {
	if c == nil {
		return false
	}
	switch c.k {
	case cvInt:
		return c.i.Sign() != 0
	case cvBool:
		return c.b
	case cvFloat, cvDouble:
		return c.bits != 0
	case cvBytes:
		return len(c.by) > 0
	case cvDecimal:
		return c.i.Sign() != 0 || c.scale != 0
	case cvDuration:
		return c.months != 0 || c.days != 0 || c.nanos != 0
	case cvMap:
		return len(c.keys) > 0
	}
	return len(c.elems) > 0
}

// ---------------------------------------------------------------------------------------------------------------------
// the specification's serialization formats, written independently of the library (native_protocol_v5.spec §3, §5, §6;
// v2: [short] counts and [short bytes] elements in collections)

type lenField struct{ off, width int }

type specWriter struct {
	b       []byte
	fields  []lenField // every length and count field, for the mutations of C04V
	version primitive.ProtocolVersion
}

func specVarint(v *big.Int) []byte {
	if v.Sign() >= 0 {
		b := v.Bytes()
		if len(b) == 0 || b[0]&0x80 != 0 {
			b = append([]byte{0}, b...)
		}
		return b
	}
	n := 1
	for new(big.Int).Neg(pow2(8*n-1)).Cmp(v) > 0 {
		n++
	}
	b := new(big.Int).Add(pow2(8*n), v).Bytes()
	for len(b) < n {
		b = append([]byte{0}, b...)
	}
	return b
}

func specUnsignedVint(v uint64) []byte {
	size := (639 - bits.LeadingZeros64(v|1)*9) >> 6
	if size == 1 {
		return []byte{byte(v)}
	}
	out := make([]byte, size)
	for i := size - 1; i >= 0; i-- {
		out[i] = byte(v)
		v >>= 8
	}
	out[0] |= ^byte(0xff >> uint(size-1))
	return out
}

func specVint(v int64) []byte { return specUnsignedVint(uint64((v >> 63) ^ (v << 1))) }

func (w *specWriter) putLen(width int, v int) int {
	off := len(w.b)
	w.fields = append(w.fields, lenField{off, width})
	if width == 2 {
		w.b = append(w.b, byte(v>>8), byte(v))
	} else {
		w.b = binary.BigEndian.AppendUint32(w.b, uint32(int32(v)))
	}
	return off
}

func (w *specWriter) patch(off, width, v int) {
	if width == 2 {
		w.b[off], w.b[off+1] = byte(v>>8), byte(v)
	} else {
		binary.BigEndian.PutUint32(w.b[off:], uint32(int32(v)))
	}
}

// element: [bytes] (or [short bytes] inside a v2 collection) holding the serialized value; false if it cannot be expressed
func (w *specWriter) element(c *cv, dt datatype.DataType, short bool) bool {
	width := 4
	if short {
		width = 2
	}
	if c == nil {
		if short {
			return false
		}
		w.putLen(4, -1)
		return true
	}
	off := w.putLen(width, 0)
	start := len(w.b)
	if !w.value(c, dt) {
		return false
	}
	n := len(w.b) - start
	if short && n > 0xffff {
		return false
	}
	w.patch(off, width, n)
	return true
}

func (w *specWriter) value(c *cv, dt datatype.DataType) bool {
	short := w.version < primitive.ProtocolVersion3
	cw := 4
	if short {
		cw = 2
	}
	switch t := dt.(type) {
	case *datatype.List, *datatype.Set:
		et := children(dt)[0]
		w.putLen(cw, len(c.elems))
		for _, e := range c.elems {
			if !w.element(e, et, short) {
				return false
			}
		}
		return true
	case *datatype.Map:
		w.putLen(cw, len(c.keys))
		for i := range c.keys {
			if !w.element(c.keys[i], t.KeyType, short) || !w.element(c.vals[i], t.ValueType, short) {
				return false
			}
		}
		return true
	case *datatype.Tuple:
		for i, e := range c.elems {
			if !w.element(e, t.FieldTypes[i], false) {
				return false
			}
		}
		return true
	case *datatype.UserDefined:
		for i, e := range c.elems {
			if !w.element(e, t.FieldTypes[i], false) {
				return false
			}
		}
		return true
	}
	code := dt.Code()
	switch c.k {
	case cvInt:
		u := new(big.Int).Set(c.i)
		switch code {
		case primitive.DataTypeCodeVarint:
			w.b = append(w.b, specVarint(c.i)...)
			return true
		case primitive.DataTypeCodeDate:
			u.Add(u, pow2(31)) // days with the epoch centered at 2^31
		}
		n := intWidth(code) / 8
		if code == primitive.DataTypeCodeTime {
			n = 8
		}
		if u.Sign() < 0 {
			u.Add(u, pow2(8*n))
		}
		b := u.Bytes()
		for len(b) < n {
			b = append([]byte{0}, b...)
		}
		w.b = append(w.b, b...)
	case cvBool:
		if c.b {
			w.b = append(w.b, 1)
		} else {
			w.b = append(w.b, 0)
		}
	case cvFloat:
		w.b = binary.BigEndian.AppendUint32(w.b, uint32(c.bits))
	case cvDouble:
		w.b = binary.BigEndian.AppendUint64(w.b, c.bits)
	case cvBytes:
		if c.inet {
			w.b = append(w.b, inetBytes(c.by)...)
		} else {
			w.b = append(w.b, c.by...)
		}
	case cvDecimal:
		w.b = binary.BigEndian.AppendUint32(w.b, uint32(c.scale))
		w.b = append(w.b, specVarint(c.i)...)
	case cvDuration:
		w.b = append(w.b, specVint(int64(c.months))...)
		w.b = append(w.b, specVint(int64(c.days))...)
		w.b = append(w.b, specVint(c.nanos)...)
	}
	return true
}

// specEncode: the value's bytes in the specification's format (nil for NULL), the positions of all length and count fields;
// ok=false when the value cannot be expressed in that version (null collection elements in v2)
func specEncode(c *cv, dt datatype.DataType, version primitive.ProtocolVersion) (b []byte, fields []lenField, ok bool) {
	if c == nil {
		return nil, nil, true
	}
	w := &specWriter{b: []byte{}, version: version}
	if !w.value(c, dt) {
		return nil, nil, false
	}
	return w.b, w.fields, true
}

// ---------------------------------------------------------------------------------------------------------------------
// findings, guarded calls, model queue

type reporter struct {
	res     *lp.Result
	perWhat map[string]int
}

func newReporter(res *lp.Result) *reporter { return &reporter{res: res, perWhat: map[string]int{}} }

// add keeps at most three instances of one `What` (the rest are counted in the distribution)
func (r *reporter) add(kind, what, input, impl, model string) {
	r.perWhat[what]++
	r.res.Count("finding/" + kind + "/" + what)
	if r.perWhat[what] <= 3 {
		if len(input) > 8000 { // inputs stay replayable: only very long ones are cut
			input = input[:8000] + "…"
		}
		r.res.Add(lp.Finding{Kind: kind, What: what, Input: input, Impl: trunc(impl), Model: trunc(model)})
	}
}

func (r *reporter) violation(what, input, impl string) { r.add("violation", what, input, impl, "") }

// violationG: at most one instance per (What, group), so that the kept instances show different types
func (r *reporter) violationG(what, group, input, impl string) {
	if r.perWhat[what+"\x00"+group]++; r.perWhat[what+"\x00"+group] > 1 {
		r.res.Count("finding/violation/" + what)
		return
	}
	r.add("violation", what, input, impl, "")
}

// panicWords: the first words of a panic message, without addresses, sizes and other case-specific parts
func panicWords(p interface{}) string {
	ws := strings.Fields(fmt.Sprint(p))
	if len(ws) > 0 && strings.HasSuffix(ws[0], ":") && ws[0] != "runtime:" {
		return strings.TrimSuffix(ws[0], ":")
	}
	var out []string
	for _, w := range ws {
		if len(out) == 6 || strings.ContainsAny(w, "0123456789[]") {
			break
		}
		out = append(out, w)
	}
	return strings.TrimSuffix(strings.Join(out, " "), ":")
}

// libFrame: the innermost frame of the library in a stack trace
func libFrame(stack []byte) string {
	for _, l := range strings.Split(string(stack), "\n") {
		if strings.HasPrefix(l, "github.com/datastax/go-cassandra-native-protocol/") {
			l = strings.TrimPrefix(l, "github.com/datastax/go-cassandra-native-protocol/")
			if i := strings.LastIndex(l, "("); i > 0 {
				l = l[:i]
			}
			return l
		}
	}
	return ""
}

type panicInfo struct {
	words, full, frame string
}

// guard runs f and reports a panic instead of propagating it
func guard(f func()) (p *panicInfo) {
	defer func() {
		if r := recover(); r != nil {
			p = &panicInfo{words: panicWords(r), full: fmt.Sprint(r), frame: libFrame(debug.Stack())}
		}
	}()
	f()
	return nil
}

func hexOrMark(b []byte) string {
	if b == nil {
		return "~"
	}
	if len(b) == 0 {
		return "-"
	}
	return hex.EncodeToString(b)
}

type modelAnswer struct {
	status string // ok | err | panic | other
	text   string
	rehex  string
	raw    string
}

func parseAnswer(a string) modelAnswer {
	f := strings.Fields(a)
	m := modelAnswer{raw: a, status: "other"}
	switch {
	case len(f) == 3 && f[0] == "ok":
		m.status, m.text, m.rehex = "ok", f[1], f[2]
	case len(f) == 1 && f[0] == "err":
		m.status = "err"
	case len(f) >= 1 && f[0] == "panic":
		m.status = "panic"
	}
	return m
}

type modelQueue struct {
	lines  []string
	checks []func(modelAnswer)
}

// val queues one `val` line; check runs on the model's answer
func (q *modelQueue) val(version primitive.ProtocolVersion, dt datatype.DataType, input []byte, check func(line string, a modelAnswer)) {
	th, err := typeHex(dt, version)
	if err != nil {
		return
	}
	line := fmt.Sprintf("val %d %s %s", int(version), th, hexOrMark(input))
	q.lines = append(q.lines, line)
	q.checks = append(q.checks, func(a modelAnswer) { check(line, a) })
}

func (q *modelQueue) finish(rep *reporter) {
	if len(q.lines) == 0 {
		return
	}
	answers, err := lp.Ask(*driverPath, q.lines)
	if err != nil {
		rep.add("disagreement", "driver failure: "+err.Error(), "", "", "")
		return
	}
	rep.res.Count("model/lines")
	for i, a := range answers {
		m := parseAnswer(a)
		if m.status == "other" {
			rep.add("disagreement", "model/implementation differ on val: the driver does not understand the line", q.lines[i], "", a)
			continue
		}
		q.checks[i](m)
	}
	rep.res.Distribution["model/lines"] = len(q.lines)
}

// sameEncoding: byte for byte, or — when the order of map entries is Go's — by length
func sameEncoding(enc []byte, rehex string, multi bool) bool {
	if rehex == hexOrMark(enc) {
		return true
	}
	if multi && rehex != "~" && rehex != "-" && rehex != "err" && !strings.HasPrefix(rehex, "panic") {
		return len(rehex) == 2*len(enc)
	}
	return false
}
