package main

import (
	"io"
	"github.com/datastax/go-cassandra-native-protocol/compression/lz4"
	"encoding/binary"
	"bytes"
	"encoding/hex"
	"fmt"
	"reflect"
	"sort"
	"strings"

	"github.com/datastax/go-cassandra-native-protocol/frame"
	"github.com/datastax/go-cassandra-native-protocol/message"
	"github.com/datastax/go-cassandra-native-protocol/primitive"
	"verif/internal/gen"
	"verif/internal/lp"
)

func init() { modes["C20"] = runC20 }

func showFrameC20(f *frame.Frame) string {
	tr := "nil"
	if f.Body.TracingId != nil {
		tr = hex.EncodeToString(f.Body.TracingId[:])
	}
	p := "nil"
	if f.Body.CustomPayload != nil {
		p = fmt.Sprint(len(f.Body.CustomPayload))
	}
	w := "nil"
	if f.Body.Warnings != nil {
		w = fmt.Sprint(len(f.Body.Warnings))
	}
	return fmt.Sprintf("%d %s %s %s", f.Header.Flags, tr, p, w)
}

type c20Acc struct {
	name string
	set  func(s *message.Startup, r *lp.Rng, g *gen.G) string // performs the set, returns the line-protocol argument
	get  func(s *message.Startup) string
}

func strArg(g *gen.G) string { return g.Str() }

var c20Accs = []c20Acc{
	{"Compression", func(s *message.Startup, r *lp.Rng, g *gen.G) string {
		c := []string{"NONE", "LZ4", "SNAPPY", g.Str()}[r.Intn(4)]
		s.SetCompression(primitive.Compression(c))
		return hexOrDash(c)
	}, func(s *message.Startup) string { return hexOrDash(string(s.GetCompression())) }},
	{"ClientId", func(s *message.Startup, r *lp.Rng, g *gen.G) string { v := g.Str(); s.SetClientId(v); return hexOrDash(v) },
		func(s *message.Startup) string { return hexOrDash(s.GetClientId()) }},
	{"ApplicationName", func(s *message.Startup, r *lp.Rng, g *gen.G) string { v := g.Str(); s.SetApplicationName(v); return hexOrDash(v) },
		func(s *message.Startup) string { return hexOrDash(s.GetApplicationName()) }},
	{"ApplicationVersion", func(s *message.Startup, r *lp.Rng, g *gen.G) string {
		v := g.Str()
		s.SetApplicationVersion(v)
		return hexOrDash(v)
	}, func(s *message.Startup) string { return hexOrDash(s.GetApplicationVersion()) }},
	{"DriverName", func(s *message.Startup, r *lp.Rng, g *gen.G) string { v := g.Str(); s.SetDriverName(v); return hexOrDash(v) },
		func(s *message.Startup) string { return hexOrDash(s.GetDriverName()) }},
	{"DriverVersion", func(s *message.Startup, r *lp.Rng, g *gen.G) string { v := g.Str(); s.SetDriverVersion(v); return hexOrDash(v) },
		func(s *message.Startup) string { return hexOrDash(s.GetDriverVersion()) }},
	{"ThrowOnOverload", func(s *message.Startup, r *lp.Rng, g *gen.G) string {
		b := r.Bool()
		s.SetThrowOnOverload(b)
		return fmt.Sprint(b)
	}, func(s *message.Startup) string { return fmt.Sprint(s.IsThrowOnOverload()) }},
}

func runC20(res *lp.Result) {
	res.Rule = "random and exhaustive (depth ≤ 3) sequences of frame mutators with nil/empty/non-empty arguments on generated frames of " +
		"every message kind and version; random sequences of STARTUP setters/getters over arbitrary strings and booleans. After every " +
		"call the flags and body parts are compared with the model and the property's invariants are evaluated on the implementation " +
		"(flags ⇔ parts present, no compression flag for STARTUP/OPTIONS/READY, encode+decode round trip; getter = last set value, " +
		"other options unchanged). Non-trivial = a sequence with at least one state-changing call; distinct by the op sequence text."
	rng := lp.NewRng(*seed)
	var lines, expect []string
	ask := func(l, want string) { lines = append(lines, l); expect = append(expect, want) }
	codec := frame.NewRawCodec()

	checkInv := func(f *frame.Frame, isResp bool, trace string) {
		fl := f.Header.Flags
		bad := func(what string) {
			res.Add(lp.Finding{Kind: "violation", What: "mutator invariant broken: " + what, Input: trace, Impl: showFrameC20(f)})
		}
		if fl.Contains(primitive.HeaderFlagCustomPayload) != (len(f.Body.CustomPayload) > 0) {
			bad("custom-payload flag does not match payload presence")
		}
		if fl.Contains(primitive.HeaderFlagWarning) != (len(f.Body.Warnings) > 0) {
			bad("warning flag does not match warnings presence")
		}
		if isResp && fl.Contains(primitive.HeaderFlagTracing) != (f.Body.TracingId != nil) {
			bad("tracing flag does not match tracing id presence on a response")
		}
		op := f.Body.Message.GetOpCode()
		if fl.Contains(primitive.HeaderFlagCompressed) && (op == primitive.OpCodeStartup || op == primitive.OpCodeOptions || op == primitive.OpCodeReady) {
			bad("compression flagged for STARTUP/OPTIONS/READY")
		}
	}
	lz4Codec := frame.NewRawCodecWithCompression(lz4.Compressor{})
	roundTrip := func(f *frame.Frame, trace string) {
		if f.Header.Flags.Contains(primitive.HeaderFlagCompressed) {
			// with the flag on, the frame goes through a codec that has a compressor — one that is IN USE: an earlier encode of the same
			// frame went to a destination that fails after a few bytes, another was refused for its version
			bad := f.DeepCopy()
			lz4Codec.EncodeFrame(bad, &failingWriter{left: 3})
			bad = f.DeepCopy()
			bad.Header.Version = primitive.ProtocolVersion(1)
			lz4Codec.EncodeFrame(bad, io.Discard)
			cp := f.DeepCopy()
			var buf bytes.Buffer
			if err := lz4Codec.EncodeFrame(cp, &buf); err != nil {
				res.Add(lp.Finding{Kind: "violation", What: "frame flagged for compression no longer encodes after applicable mutators: " + err.Error(), Input: trace})
				return
			}
			d, err := lz4Codec.DecodeFrame(bytes.NewReader(buf.Bytes()))
			if err != nil {
				res.Add(lp.Finding{Kind: "violation", What: "frame flagged for compression does not round-trip after applicable mutators (the codec had failed encodes before): " + firstWords(err.Error()), Input: trace})
				return
			}
			if d.Header.Flags != cp.Header.Flags || (d.Body.TracingId == nil) != (cp.Body.TracingId == nil) ||
				len(d.Body.CustomPayload) != len(cp.Body.CustomPayload) || len(d.Body.Warnings) != len(cp.Body.Warnings) {
				res.Add(lp.Finding{Kind: "violation", What: "flags/body parts differ after a compressed round trip following applicable mutators", Input: trace, Impl: showFrameC20(d)})
			}
			return
		}
		cp := f.DeepCopy()
		var buf bytes.Buffer
		if err := codec.EncodeFrame(cp, &buf); err != nil {
			res.Add(lp.Finding{Kind: "violation", What: "frame no longer encodes after applicable mutators: " + err.Error(), Input: trace})
			return
		}
		enc := append([]byte{}, buf.Bytes()...)
		// "still encodes and round-trips" the way a peer reads it: by the length the header declares — twice back to back
		hl := cp.Header.Version.FrameHeaderLengthInBytes()
		if len(enc) >= hl {
			if declared := int(int32(binary.BigEndian.Uint32(enc[hl-4 : hl]))); declared != len(enc)-hl {
				res.Add(lp.Finding{Kind: "violation", What: fmt.Sprintf("after applicable mutators the header declares %d body bytes, %d were written", declared, len(enc)-hl), Input: trace})
			}
		}
		two := bytes.NewReader(append(append([]byte{}, enc...), enc...))
		for k := 0; k < 2; k++ {
			rf, err := codec.DecodeRawFrame(two)
			if err == nil {
				_, err = codec.ConvertFromRawFrame(rf)
			}
			if err != nil {
				res.Add(lp.Finding{Kind: "violation", What: "frame encoded after applicable mutators is not read back by its declared length: " + firstWords(err.Error()), Input: trace})
				break
			}
		}
		d, err := codec.DecodeFrame(&buf)
		if err != nil {
			res.Add(lp.Finding{Kind: "violation", What: "frame no longer decodes after applicable mutators: " + err.Error(), Input: trace})
			return
		}
		if d.Header.Flags != cp.Header.Flags || (d.Body.TracingId == nil) != (cp.Body.TracingId == nil) ||
			len(d.Body.CustomPayload) != len(cp.Body.CustomPayload) || len(d.Body.Warnings) != len(cp.Body.Warnings) {
			res.Add(lp.Finding{Kind: "violation", What: "flags/body parts differ after round trip following applicable mutators", Input: trace,
				Impl: showFrameC20(d)})
		}
	}

	nseq := 6
	if thorough() {
		nseq = 60
	}
	type op struct {
		name string
		args []string
	}
	allOps := func(isResp bool, v primitive.ProtocolVersion) []op {
		ops := []op{{"fcompress", []string{"true", "false"}}}
		if v >= primitive.ProtocolVersion4 {
			ops = append(ops, op{"fpayload", []string{"nil", "0", "2"}})
		}
		if isResp {
			ops = append(ops, op{"ftracing", []string{"nil", "000102030405060708090a0b0c0d0e0f"}})
			if v >= primitive.ProtocolVersion4 {
				ops = append(ops, op{"fwarn", []string{"nil", "0", "3"}})
			}
			// RequestTracingId(true) on a response is applied only while the response carries a tracing id (then flag and body part
			// agree before and must agree after)
			ops = append(ops, op{"freq-on-response", []string{"true"}})
		} else {
			ops = append(ops, op{"freq", []string{"true", "false"}})
		}
		return ops
	}
	apply := func(f *frame.Frame, name, arg string) {
		switch name {
		case "fcompress":
			f.SetCompress(arg == "true")
		case "freq":
			f.RequestTracingId(arg == "true")
		case "fpayload":
			if arg == "nil" {
				f.SetCustomPayload(nil)
			} else {
				n := int(arg[0] - '0')
				p := map[string][]byte{}
				for i := 0; i < n; i++ {
					p[string([]byte{byte(i)})] = []byte{1}
				}
				f.SetCustomPayload(p)
			}
		case "fwarn":
			if arg == "nil" {
				f.SetWarnings(nil)
			} else {
				n := int(arg[0] - '0')
				w := make([]string, n)
				for i := range w {
					w[i] = string([]byte{byte(i)})
				}
				f.SetWarnings(w)
			}
		case "ftracing":
			if arg == "nil" {
				f.SetTracingId(nil)
			} else {
				var u primitive.UUID
				b, _ := hex.DecodeString(arg)
				copy(u[:], b)
				f.SetTracingId(&u)
			}
		}
	}
	for _, v := range gen.Versions {
		for _, kind := range gen.Kinds {
			g := &gen.G{R: rng, V: v}
			m := g.Message(kind)
			if m == nil {
				continue
			}
			isResp := m.IsResponse()
			ops := allOps(isResp, v)
			// flat list of (op,arg)
			type oa struct{ n, a string }
			var flat []oa
			for _, o := range ops {
				for _, a := range o.args {
					flat = append(flat, oa{o.name, a})
				}
			}
			seqNo := 0
			runSeq := func(seq []oa) {
				seqNo++
				encodeBetween := seqNo%2 == 0
				f := frame.NewFrame(v, 1, m)
				ask(fmt.Sprintf("c20 fnew %d %d", f.Header.Flags, f.Body.Message.GetOpCode()), showFrameC20(f))
				var tr []string
				askedForTracing := false // a request: what the last RequestTracingId call said
				for _, s := range seq {
					if s.n == "freq-on-response" {
						if f.Body.TracingId == nil {
							continue
						}
						s.n = "freq"
					}
					apply(f, s.n, s.a)
					tr = append(tr, s.n+" "+s.a)
					trace := fmt.Sprintf("v=%d kind=%s ops=[%s]", v, kind, strings.Join(tr, "; "))
					ask("c20 "+s.n+" "+s.a, showFrameC20(f))
					checkInv(f, isResp, trace)
					if encodeBetween && rng.Intn(3) == 0 {
						// the frame is SENT between two mutator calls (the object itself, not a copy — what the encode leaves in it, such
						// as the computed body length, travels on into the calls that follow)
						cd := codec
						if f.Header.Flags.Contains(primitive.HeaderFlagCompressed) {
							cd = lz4Codec
						}
						cd.EncodeFrame(f, io.Discard)
						tr = append(tr, "(encoded)")
					}
					if !isResp {
						if s.n == "freq" {
							askedForTracing = s.a == "true"
						}
						// on a request the TRACING flag is the request for tracing: only RequestTracingId changes it
						if f.Header.Flags.Contains(primitive.HeaderFlagTracing) != askedForTracing {
							res.Add(lp.Finding{Kind: "violation", What: "mutator invariant broken: the tracing flag of a request does not say what RequestTracingId last asked for", Input: trace, Impl: showFrameC20(f)})
						}
					}
				}
				trace := fmt.Sprintf("v=%d kind=%s ops=[%s]", v, kind, strings.Join(tr, "; "))
				roundTrip(f, trace)
				res.Case(trace, len(seq) > 0)
				res.Count("mutseq/len" + fmt.Sprint(len(seq)))
			}
			// exhaustive depth ≤ 2 (quick) / ≤ 3 (thorough) for a rotating subset of kinds, random longer ones for all
			depth := 2
			if thorough() {
				depth = 3
			}
			if rng.Intn(4) == 0 || thorough() {
				var rec func(prefix []oa, d int)
				rec = func(prefix []oa, d int) {
					runSeq(prefix)
					if d == 0 {
						return
					}
					for _, x := range flat {
						rec(append(append([]oa{}, prefix...), x), d-1)
					}
				}
				rec(nil, depth)
			}
			for i := 0; i < nseq; i++ {
				n := 1 + rng.Intn(10)
				seq := make([]oa, n)
				for j := range seq {
					seq[j] = flat[rng.Intn(len(flat))]
				}
				runSeq(seq)
			}
			// ANY sequence of mutator calls, applicable to the frame's direction or not (RequestTracingId on a response in either
			// sense, tracing id and warnings on a request): the doc comments call these calls useless, not forbidden — whatever the
			// flags then say, the frame must still go through the codec: it encodes without an error, the header declares what was
			// written, and the bytes decode
			anyOps := []oa{{"fcompress", "true"}, {"fcompress", "false"}, {"freq", "true"}, {"freq", "false"}, {"ftracing", "nil"},
				{"ftracing", "000102030405060708090a0b0c0d0e0f"}}
			if v >= primitive.ProtocolVersion4 {
				anyOps = append(anyOps, oa{"fpayload", "nil"}, oa{"fpayload", "0"}, oa{"fpayload", "2"}, oa{"fwarn", "nil"}, oa{"fwarn", "0"}, oa{"fwarn", "3"})
			}
			for i := 0; i < nseq; i++ {
				f := frame.NewFrame(v, 1, m)
				var tr []string
				for j, n := 0, 1+rng.Intn(5); j < n; j++ {
					o := anyOps[rng.Intn(len(anyOps))]
					if isResp && o.n == "freq" && o.a == "true" && f.Body.TracingId == nil {
						continue // asks a RESPONSE to carry an id it does not have: not a frame (as in the sequences above)
					}
					apply(f, o.n, o.a)
					tr = append(tr, o.n+" "+o.a)
				}
				trace := fmt.Sprintf("v=%d kind=%s any ops=[%s]", v, kind, strings.Join(tr, "; "))
				res.Case(trace, true)
				res.Count("mutseq/any")
				cd := codec
				if f.Header.Flags.Contains(primitive.HeaderFlagCompressed) {
					cd = lz4Codec
				}
				var buf bytes.Buffer
				if err := cd.EncodeFrame(f.DeepCopy(), &buf); err != nil {
					res.Add(lp.Finding{Kind: "violation", What: "frame no longer encodes after a sequence of mutator calls: " + firstWords(err.Error()), Input: trace, Impl: showFrameC20(f)})
					continue
				}
				enc := buf.Bytes()
				hl := f.Header.Version.FrameHeaderLengthInBytes()
				if declared := int(int32(binary.BigEndian.Uint32(enc[hl-4 : hl]))); declared != len(enc)-hl {
					res.Add(lp.Finding{Kind: "violation", What: fmt.Sprintf("after a sequence of mutator calls the header declares %d body bytes, %d were written", declared, len(enc)-hl), Input: trace})
				}
				if _, err := cd.DecodeFrame(bytes.NewReader(enc)); err != nil {
					res.Add(lp.Finding{Kind: "violation", What: "frame no longer decodes after a sequence of mutator calls: " + firstWords(err.Error()), Input: trace, Impl: showFrameC20(f)})
				}
			}
		}
	}
	// STARTUP accessors: random histories against an abstract record of the seven options
	nh := 300
	if thorough() {
		nh = 5000
	}
	for h := 0; h < nh; h++ {
		g := &gen.G{R: rng, V: primitive.ProtocolVersion4}
		s := message.NewStartup()
		ask("c20 snew", "ok")
		ask("c20 sput "+hexOrDash(message.StartupOptionCqlVersion)+" "+hexOrDash("3.0.0"), "ok")
		spec := map[string]string{}
		for _, a := range c20Accs {
			spec[a.name] = a.get(s)
		}
		var tr []string
		n := 1 + rng.Intn(12)
		for i := 0; i < n; i++ {
			a := c20Accs[rng.Intn(len(c20Accs))]
			arg := a.set(s, rng, g)
			spec[a.name] = arg
			tr = append(tr, "set"+a.name+" "+arg)
			ask("c20 sset "+a.name+" "+arg, "ok")
			names := make([]string, 0, len(c20Accs))
			for _, b := range c20Accs {
				names = append(names, b.name)
			}
			sort.Strings(names)
			for _, b := range c20Accs {
				got := b.get(s)
				ask("c20 sget "+b.name, got)
				if got != spec[b.name] {
					res.Add(lp.Finding{Kind: "violation",
						What:  fmt.Sprintf("STARTUP accessor inconsistency: Get%s returns %s but the last value set was %s", b.name, got, spec[b.name]),
						Input: strings.Join(tr, "; "), Impl: got})
				}
			}
			if s.Options[message.StartupOptionCqlVersion] != "3.0.0" {
				res.Add(lp.Finding{Kind: "violation", What: "a STARTUP setter changed CQL_VERSION", Input: strings.Join(tr, "; ")})
			}
		}
		res.Case("startup: "+strings.Join(tr, "; "), true)
		res.Count("startup/len" + fmt.Sprint(n/4*4))
	}
	_ = reflect.DeepEqual
	answers, err := lp.Ask(*driverPath, lines)
	if err != nil {
		res.Add(lp.Finding{Kind: "disagreement", What: "driver failure: " + err.Error()})
		return
	}
	for i, a := range answers {
		if a != expect[i] {
			res.Add(lp.Finding{Kind: "disagreement", What: "model/implementation differ on: " + lines[i], Input: lines[i], Impl: expect[i], Model: a})
		}
	}
}

// failingWriter accepts a few bytes and then fails (a connection that breaks while a frame is written)
type failingWriter struct{ left int }

func (w *failingWriter) Write(p []byte) (int, error) {
	if len(p) <= w.left {
		w.left -= len(p)
		return len(p), nil
	}
	n := w.left
	w.left = 0
	return n, fmt.Errorf("connection reset by peer")
}
