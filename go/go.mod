module verif

go 1.23

require (
	github.com/datastax/go-cassandra-native-protocol v0.0.0
	github.com/golang/snappy v0.0.3
	github.com/pierrec/lz4/v4 v4.0.3
	github.com/rs/zerolog v1.20.0
	golang.org/x/tools v0.29.0
)

require (
	golang.org/x/mod v0.22.0 // indirect
	golang.org/x/sync v0.10.0 // indirect
)

replace github.com/datastax/go-cassandra-native-protocol => /repo
