#!/usr/bin/env python3
"""Apply seeded property-breaking changes (produced by independent agents from the property text alone) to /repo one at a
time, run the property's check, record whether and how it is caught, and restore /repo. Usage: seedtest.py <ID> [<ID>…]
Input: /tmp/mut-<ID>-out/m<k>.diff (+ m<k>_demo_test.go, m<k>.json). Output: /verif/seeded/<ID>-m<k>/."""
import json, os, re, shutil, subprocess, sys, time

VERIF = os.environ.get("SEED_VERIF", "/verif")      # a lane copy of /verif (see seedlanes.sh) or /verif itself
REPO = os.environ.get("VERIF_REPO", "/repo")         # the tree the seed is applied to: /repo, or a scratch worktree for a lane

def sh(cmd, **kw):
    p = subprocess.run(cmd, shell=True, stdout=subprocess.PIPE, stderr=subprocess.STDOUT, text=True, **kw)
    return p.returncode, p.stdout

def main():
    for arg in sys.argv[1:]:
        pid, _, only = arg.partition(":")
        rnd = ""
        if "@" in pid:
            pid, rnd = pid.split("@")          # C05@2 = second round of seeds: /tmp/mut2-C05-out → seeded/C05-r2m<k>
        src = f"/tmp/mut{rnd}-{pid}-out"
        tag = f"r{rnd}m" if rnd else "m"
        for k in ((int(only),) if only else (1, 2, 3, 4, 5)):
            diff = f"{src}/m{k}.diff"
            out = f"{VERIF}/seeded/{pid}-{tag}{k}"
            if not os.path.exists(diff):
                # re-run of a seed recorded earlier
                if not os.path.exists(f"{out}/patch.diff"):
                    continue
            else:
                os.makedirs(out, exist_ok=True)
                shutil.copy(diff, f"{out}/patch.diff")
            if os.path.exists(f"{src}/m{k}_demo_test.go"):
                shutil.copy(f"{src}/m{k}_demo_test.go", f"{out}/demonstration_test.go.txt")
            meta = {}
            if os.path.exists(f"{out}/meta.json") and not os.path.exists(f"{src}/m{k}.json"):
                old = json.load(open(f"{out}/meta.json"))
                meta = {k2: old[k2] for k2 in ("files", "summary", "breaks", "why_tests_pass") if k2 in old}
            if os.path.exists(f"{src}/m{k}.json"):
                try:
                    meta = json.load(open(f"{src}/m{k}.json"))
                except ValueError:
                    meta = {"summary": open(f"{src}/m{k}.json").read()[:500]}
            meta["property"] = pid
            meta["origin"] = "independent sub-agent given only the property text and a scratch worktree of the repository"
            rc, o = sh(f"git -C {REPO} status --short")
            if o.strip():
                print("REPO NOT CLEAN, abort:", o); return 1
            rc, o = sh(f"git -C {REPO} apply {out}/patch.diff")
            if rc != 0:
                meta["result"] = "patch does not apply to the current tree: " + o[:300]
                json.dump(meta, open(f"{out}/meta.json", "w"), indent=1)
                print(pid, k, "PATCH DOES NOT APPLY")
                continue
            try:
                runs = []
                detected = None
                for tier in os.environ.get("SEED_TIERS", "quick thorough").split():
                    t0 = time.time()
                    rc, o = sh(f"cd {VERIF} && ./check {pid} {tier}", timeout=7200)
                    lines = [l for l in o.split("\n") if l.strip()]
                    vio = [l for l in lines if l.startswith("VIOLATION")]
                    runs.append({"tier": tier, "exit": rc, "seconds": round(time.time() - t0), "output_tail": lines[-8:]})
                    if rc == 1 and vio:
                        detected = tier
                        meta["violation_line"] = vio[0]
                        meta["with_failing_input"] = "no-failing-input-found" not in vio[0]
                        rp = f"{VERIF}/evidence/replays/{pid}.json"
                        if os.path.exists(rp):
                            r = json.load(open(rp))
                            meta["failing_inputs"] = [{"what": f.get("what", "")[:300], "input": f.get("input", "")[:300]} for f in r.get("failing_inputs", [])[:3]]
                            meta["broken_obligations"] = [{"kind": b["kind"], "name": b["name"][:200]} for b in r.get("broken_obligations", [])[:6]]
                        break
                meta["detected_by"] = (f"./check {pid} {detected}") if detected else "NOT DETECTED"
                meta["runs"] = runs
            finally:
                sh(f"git -C {REPO} checkout -- . && git -C {REPO} clean -fdq")
            json.dump(meta, open(f"{out}/meta.json", "w"), indent=1)
            print(pid, k, meta["detected_by"], "|", meta.get("violation_line", ""), "|", (meta.get("failing_inputs") or [{}])[0].get("what", "")[:120], flush=True)
    return 0

if __name__ == "__main__":
    sys.exit(main())
