"""Per-property configuration for ./check (which Lean modules hold the theorems, what is trusted)."""

COMMON_TRUST = [
    "Lean 4.33.0 kernel (thorough tier: leanchecker re-check of the property module)",
    "axioms allowed in property theorems: propext, Classical.choice, Quot.sound",
]
TRANSLATOR = "verif-extract (go/ast + go/types translator /repo -> Cql/Gen/*.lean), cross-checked behaviourally by the harness"
HARNESS = "verif-harness correspondence run (differential, sampled; never a substitute for a theorem)"

PROPS = {
    "C19": {
        "lean_targets": ["Cql.Props.C19"],
        "trusted_base": COMMON_TRUST + [TRANSLATOR, HARNESS,
                         "Cql/Spec/Features.lean: hand transcription of the specs' per-version feature lists"],
        "assumptions": [
            "the translator reports the constants, case lists and predicate bodies that are in primitive/constants.go and util.go "
            "(validated on every run against the real predicates over the full 8/16-bit domains and all 256 version bytes)",
            "String() 'specific name' = the constant has its own case in the String() switch",
            "capability predicates are judged only where the specification documents pronounce (MOVED_NODE for v4+ is not judged)",
        ],
    },
    "C20": {
        "lean_targets": ["Cql.Props.C20"],
        "trusted_base": COMMON_TRUST + [TRANSLATOR, HARNESS],
        "assumptions": [
            "the translator reports the statements of the Startup accessors and Frame mutators faithfully (validated on every run by "
            "replaying mutator/accessor sequences on the real code and the model)",
            "mutator applicability follows the doc comments in frame.go: tracing id and warnings on responses, RequestTracingId on requests",
            "'the frame still encodes and round-trips' is shown by the harness on the implementation for every explored sequence; the Lean "
            "theorem carries the flags/body invariant that C01's validity predicate requires",
        ],
    },
}

MANIFEST_TEXT = {
    "C19": {
        "text": "Lean theorems over the regenerated constant tables: for every code type the validity check accepts exactly the "
                "declared constants over the whole Nat / byte-string domain (not a sample), every declared constant has its own "
                "String() case, opcodes are exactly one of request/response over all of Nat, Check* helpers agree with the "
                "predicates, and for every supported version every capability predicate equals the specs' feature table. "
                "Proof is the right level: the quantifier is the complete code space, which a table test cannot enumerate.",
        "design_ref": "DESIGN.md §5 C19",
        "note": "Trusted: Lean kernel; the translator's reading of constants.go/util.go (validated each run against the real "
                "predicates on the full 8/16-bit domains, 32-bit boundaries and all 256 version bytes); the hand transcription "
                "of the specs' feature lists in Cql/Spec/Features.lean.",
        "technique": "Lean 4 kernel-checked theorems over tables regenerated from the Go source (decidable set equality lifted to ∀ x)",
    },
    "C20": {
        "text": "Lean theorems over functions regenerated from frame/frame.go and message/startup.go: after ANY finite sequence of "
                "applicable mutator calls with arbitrary arguments the header flags reflect exactly the body parts present and "
                "compression is never flagged for STARTUP/OPTIONS/READY (inductive invariant over all histories; flag algebra decided "
                "over the complete 8-bit flag domain); every STARTUP setter stores what its getter returns and touches no other key, "
                "and any history of setter calls behaves like an abstract record of seven independent options (refinement).",
        "design_ref": "DESIGN.md §5 C20",
        "note": "Trusted: Lean kernel; the translator's reading of the accessor/mutator bodies; the harness for the 'still encodes and "
                "round-trips' clause (checked on the implementation for explored sequences, and by C01's theorem for valid frames).",
        "technique": "Lean 4 invariant-by-induction and refinement theorems over functions regenerated from the Go source",
    },
}

_UNBUILT = "check not built yet in this session (work in progress; the technique applies, see DESIGN.md §5)"
NOT_CLAIMED = {f"C{i:02d}": _UNBUILT for i in range(1, 21)}
