"""Per-property configuration for ./check (which Lean modules hold the theorems, what is trusted)."""

COMMON_TRUST = [
    "Lean 4.33.0 kernel (thorough tier: leanchecker re-check of the property module)",
    "axioms allowed in property theorems: propext, Classical.choice, Quot.sound",
]
TRANSLATOR = "verif-extract (go/ast + go/types translator /repo -> Cql/Gen/*.lean), cross-checked behaviourally by the harness"
HARNESS = "verif-harness correspondence run (differential, sampled; never a substitute for a theorem)"

PROPS = {
    "C15": {
        "lean_targets": ["Cql.Props.C15"],
        "harness_timeout": 5400,
        "trusted_base": COMMON_TRUST + [TRANSLATOR + " (constants, version predicates incl. SupportsModernFramingLayout, Startup accessors)", HARNESS,
            "Cql/Conn.lean: hand-written model of the framing logic of client/client.go and client/server.go (layout switch, self-contained "
            "segment loop, multi-segment accumulator, writeSegment), on top of the frame and segment codec models; compared with the real server "
            "connection on the segment sequences a raw peer sends",
            "TCP, goroutines and scheduling are outside the theorems: the end-to-end clauses are OBSERVED between the library's client and "
            "server and against an independent raw TCP peer (own segment framing written from the specification)"],
        "assumptions": [
            "frames are version-valid (C01's ValidFrame); a fatal ERROR frame makes the client close the connection by design and is excluded",
            "outgoing envelopes fit one segment: the library never splits an envelope it sends (larger ones make the connection fail; "
            "C15_oversized_envelope_aborts) — the property quantifies large sizes on receive only",
            "the payload compressor is lossless on the payload at hand (C08 for LZ4)",
        ],
    },
    "C11": {
        "gens": ["constants", "gofn_time", "gofn_vint"],
        "lean_targets": ["Cql.Props.C11", "Cql.Props.C13AsWritten", "Cql.Props.C03AsWritten"],
        "trusted_base": COMMON_TRUST + [HARNESS,
            "Cql/Value.lean, Cql/Vint.lean: hand-written model of the byte-level part of datacodec/*.go and primitive/vint.go (write*/read* of every "
            "scalar type, big.Int arithmetic of the varint codec, collection/map/tuple/UDT recursion incl. v2 vs v3+ lengths and null handling), "
            "compared with the real codecs on every run (decoded value text and re-encoded bytes)",
            "Cql/Spec/Value.lean: hand transcription of native_protocol_v5.spec §3 [vint], §5, §6 and the v2 collection format, written arithmetically "
            "(minimal two's complement by magnitude, vints by leading-ones count), independent of the code-shaped model",
            "the Go-representation layer (reflection, type switches, strings, time.Time, big.Float) is outside the model: it is exercised by the "
            "harness over the doc.go table of accepted types, not proved (integer conversions: see C13)"],
        "assumptions": [
            "HasType: the value is well typed and representable (integer ranges, 16-byte uuids, 4/16-byte addresses, int32 scale, int32/int32/int64 "
            "duration parts, sizes within the format's limits); IPv4-mapped IPv6 addresses and tuple/UDT types without fields are excluded "
            "(see the known findings / DESIGN.md)",
            "round trip through the same Go representation is judged by the harness on the canonical rendering of the value",
        ],
    },
    "C12": {
        "gens": ["constants", "gofn_time", "gofn_vint"],
        "lean_targets": ["Cql.Props.C12", "Cql.Props.C13AsWritten", "Cql.Props.C03AsWritten"],
        "trusted_base": COMMON_TRUST + [HARNESS,
            "Cql/Value.lean, Cql/Vint.lean: hand-written model of the byte-level part of datacodec/*.go and primitive/vint.go (write*/read* of every "
            "scalar type, big.Int arithmetic of the varint codec, collection/map/tuple/UDT recursion incl. v2 vs v3+ lengths and null handling), "
            "compared with the real codecs on every run (decoded value text and re-encoded bytes)",
            "Cql/Spec/Value.lean: hand transcription of native_protocol_v5.spec §3 [vint], §5, §6 and the v2 collection format, written arithmetically "
            "(minimal two's complement by magnitude, vints by leading-ones count), independent of the code-shaped model",
            "the Go-representation layer (reflection, type switches, strings, time.Time, big.Float) is outside the model: it is exercised by the "
            "harness over the doc.go table of accepted types, not proved (integer conversions: see C13)"],
        "assumptions": [
            "as C11; multi-entry maps are compared with the specification entry by entry (Go map iteration order is unspecified)",
        ],
    },
    "C14": {
        "lean_targets": ["Cql.Props.C14"],
        "trusted_base": COMMON_TRUST + [HARNESS,
            "Cql/Value.lean, Cql/Vint.lean: hand-written model of the byte-level part of datacodec/*.go and primitive/vint.go (write*/read* of every "
            "scalar type, big.Int arithmetic of the varint codec, collection/map/tuple/UDT recursion incl. v2 vs v3+ lengths and null handling), "
            "compared with the real codecs on every run (decoded value text and re-encoded bytes)",
            "Cql/Spec/Value.lean: hand transcription of native_protocol_v5.spec §3 [vint], §5, §6 and the v2 collection format, written arithmetically "
            "(minimal two's complement by magnitude, vints by leading-ones count), independent of the code-shaped model",
            "the Go-representation layer (reflection, type switches, strings, time.Time, big.Float) is outside the model: it is exercised by the "
            "harness over the doc.go table of accepted types, not proved (integer conversions: see C13)"],
        "assumptions": [
            "as C11; which Go nil-able sources and destinations exist is taken from the doc.go table and exercised by the harness",
            "an EMPTY non-nil byte string decodes as NULL for every type except ascii/varchar/blob/custom (modelled and proved as coded)",
        ],
    },
    "C16": {
        "gens": ["inflight"],
        "lean_targets": ["Cql.Props.C16", "Cql.Props.C16Close", "Cql.Props.C16AsWritten"],
        "harness_timeout": 5400,
        "trusted_base": COMMON_TRUST + [HARNESS,
            "Cql/Timer.lean: hand-written timed model of the request life-cycle in client/inflight.go (one timer per request, restarted on every "
            "non-final page, cancelled with the request; handler close), tied to the code by real-time histories executed through the `verif` "
            "export shim client/verif_hooks.go",
            "the connection-level clauses (Close returns, blocked callers return, no goroutine survives, no panic) are OBSERVED on the real client "
            "and server under fault injection at every step boundary; they are not carried by a theorem"],
        "assumptions": [
            "timers fire when due, before any later event (histories are generated with every deadline at least two time units away from any "
            "event, so that scheduling jitter cannot change the expected outcome)",
            "a positive read timeout",
            "one event = one handler call (API-level atomicity) in the timed model; Send racing with Close is covered separately at the "
            "granularity of atomic steps under the read/write lock (Cql/CloseMicro.lean: every interleaving); the remaining steps of "
            "Close (socket close, wait group, handler close) are explored by the fault-injection scenarios, not proved",
        ],
    },
    "C02": {
        "lean_targets": ["Cql.Props.C02"],
        "trusted_base": COMMON_TRUST + [TRANSLATOR + " (constants: every flag mask, opcode, version, query/prepare/batch/rows flag of Cql/Spec is proved equal "
            "to its regenerated Gen constant)", HARNESS,
            "Cql/Impl/*.lean: hand-written code-shaped model of frame/*.go, message/*.go, primitive/*.go, datatype/*.go (tied byte-for-byte by the "
            "C01/C03/C05 correspondence runs)",
            "Cql/Spec/{Notations,Frame,Requests,Responses,Message}.lean: hand transcription of specs/native_protocol_v2..v5.spec and "
            "dse_protocol_v1..v2.spec, each clause quoting its sentence; written independently of Cql/Impl"],
        "assumptions": [
            "version-validity for C02 includes FieldsDefined: a message carries only elements its version's document defines (the Go encoder "
            "writes e.g. a v4 QUERY keyspace if asked to; such frames are outside the property's premise)",
            "compressed bodies: the compressor's output on the specification's uncompressed body (the block formats are third-party, see C08)",
            "where the documents leave a choice (custom payload position in v4/DSE, DSE v2 header text) the reading recorded in Cql/Spec/Frame.lean is used",
        ],
    },
    "C07": {
        "gens": ["crcfacts", "gofn_crc"],
        "lean_targets": ["Cql.Props.C07", "Cql.Props.C06AsWritten", "Cql.Props.C07AsWritten"],
        "native_theorems": {"crc24_distance_3": 1, "crc24_distance_5": 1, "header_bitflips_rejected": 1,
                            "segment_header_bitflips_rejected": 1, "encoded_segment_header_bitflips_rejected": 1,
                            "C07_header_as_written_bitflips_rejected": 1},
        "trusted_base": COMMON_TRUST + [TRANSLATOR + " (CRC polynomials, shifts, masks, seed bytes: Gen/CrcFacts.lean)", HARNESS,
            "native_decide in two named enumeration theorems of Cql/Lemmas/Crc24Enum.lean (crc24_weight_core_3 over 536,154 and crc24_weight_core_5 "
            "over 23,242,038 error patterns): adds the axioms crc24_weight_core_{3,5}._native.native_decide.ax_1_1, i.e. trusts the Lean "
            "compiler/interpreter for these two evaluations; only the five CRC-24 distance/header theorems depend on them; every CRC-32 theorem and "
            "the period check are kernel-only",
            "Cql/Crc.lean, Cql/Segment.lean: hand-written BitVec model of crc/*.go and segment/decode.go (compared with the real code on every run)"],
        "assumptions": [
            "corruption = xor of the transmitted bytes with an error mask of the same length (insertions/deletions of bytes are not bit flips)",
            "two-bit payload errors are covered for payloads up to the format's 131071-byte limit (period check up to 1,048,832 bits)",
            "the payload theorems take the intact header as decoded (the header round trip is C06)",
        ],
    },
    "C18": {
        "gens": ["effects"],
        "race": True,
        "lean_targets": ["Cql.Props.C18"],
        "trusted_base": COMMON_TRUST + [TRANSLATOR + " (effects.go: SSA-based, conservative write/read sets and class-hierarchy call graph of every "
            "function of primitive, datatype, message, frame, segment, crc, datacodec, compression/lz4, compression/snappy)", HARNESS,
            "the effect analysis is sound for the constructs it accepts: stores, map updates, channel sends, copy/append/delete/clear, and pointers "
            "into shared memory handed to functions outside the module count as writes; results of calls are treated as fresh values; a short "
            "list of external functions is trusted to be read-only in the argument concerned (fmt/errors/bytes constructors, hash/crc32 with its "
            "table, time.Date, math/big operands other than the receiver)",
            "Go race detector (stress runs only; supports the model, proves nothing)"],
        "assumptions": [
            "a codec call is atomic with respect to the shared state it READS (the shared state is immutable after initialisation, which is what "
            "the per-run theorems establish), so interleavings of calls are the only interleavings that matter",
            "third-party code (pierrec/lz4 incl. its sync.Pool, golang/snappy, math/big, zerolog, the Go runtime and standard library) is thread-safe",
            "configuration operations (constructors, SetBodyCompressor) are not run concurrently with codec calls; they are excluded and reported",
            "each goroutine works on its own frames, buffers and values (the property's premise)",
        ],
    },
    "C17": {
        "gens": ["deepcopy"],
        "lean_targets": ["Cql.Props.C17"],
        "trusted_base": COMMON_TRUST + [TRANSLATOR + " (field shapes of every struct type with a DeepCopyInto method from go/types; copy plans from "
            "the AST of */deepcopy_generated.go, matched statement form by statement form — an unknown form is rejected; the templates of "
            "DeepCopy/DeepCopyMessage/DeepCopyDataType; the hand-written UUID.DeepCopy)", HARNESS,
            "Cql/DeepCopy.lean: Go values as trees with located pointer/slice/map/interface nodes; new/make return locations never handed out before"],
        "assumptions": [
            "Go memory model facts used by the value model: strings and scalars are immutable or copied by value; arrays of scalars are copied by "
            "assignment; `copy` of a slice of scalars shares nothing; zero-capacity slices own no memory",
            "no reflection/unsafe aliasing inside the copied types (the translator rejects unsafe.Pointer fields)",
            "equality is reflect.DeepEqual (erase = the value with locations forgotten); nil vs empty containers are distinguished",
        ],
    },
    "C06": {
        "gens": ["crcfacts", "gofn_crc"],
        "lean_targets": ["Cql.Props.C06", "Cql.Props.C06AsWritten"],
        "trusted_base": COMMON_TRUST + [TRANSLATOR + " (segment/crc constants, shifts, masks, literals: Gen/CrcFacts.lean)", HARNESS,
            "Cql/Segment.lean, Cql/Crc.lean: hand-written code-shaped model of segment/*.go and crc/*.go; "
            "Cql/Spec/Segment.lean: hand transcription of native_protocol_v5.spec §2 (byte order, CRC-24 polynomial/initial value "
            "and CRC-32 seed bytes are left by the spec to Cassandra's reference code and are taken from it)"],
        "assumptions": [
            "the payload compressor is a parameter: the compressed round trip assumes it is lossless on the payload at hand and never "
            "compresses a non-empty payload to zero bytes (both discharged for the LZ4 wrapper in C08 under the block-format contract)",
            "io.Reader/io.Writer behaviour (short reads, write errors) is outside the model: a segment is decoded from a byte string",
        ],
    },
    "C08": {
        "lean_targets": ["Cql.Props.C08"],
        "trusted_base": COMMON_TRUST + [HARNESS,
            "Cql/Compress.lean: hand-written model of compression/lz4/lz4.go and compression/snappy/snappy.go (length prefix, empty-message "
            "cases, buffer-growing loop), compared with the real wrappers on every run with the block functions as oracles",
            "Lz4Law / SnappyLaw: the contract assumed of github.com/pierrec/lz4/v4 and github.com/golang/snappy block functions "
            "(total compression, block of the empty input is 00, UncompressBlock restores when the buffer fits and errs when it does not, "
            "ratio <= 255, CompressBlockBound / MaxEncodedLen); each clause is observed on every harness input but not proved"],
        "assumptions": [
            "third-party block codecs satisfy Lz4Law / SnappyLaw (hypotheses of the theorems; satisfiable: literalCodec). The harness has "
            "OBSERVED the clause uncompress_fits to be false for pierrec/lz4 v4.0.3 on a few inputs (repetitions of an 8-byte pattern, "
            "65555..65560 bytes: CompressBlock emits a block UncompressBlock rejects) — recorded as a known finding; for such inputs the "
            "theorems' hypothesis does not hold and the real round trip fails",
            "frame bodies below 2^32 bytes (the 4-byte length prefix); C08_lz4_withLength_prefix_wraps shows the limit is sharp",
        ],
    },
    "C13": {
        "gens": ["conversions", "gofn_time"],
        "lean_targets": ["Cql.Props.C13", "Cql.Props.C13Time", "Cql.Props.C13AsWritten"],
        "trusted_base": COMMON_TRUST + [TRANSLATOR + " (every integer helper of datacodec/conversions.go and the type-switch tables of the "
            "bigint/counter, int, smallint, tinyint and varint codecs)", HARNESS,
            "Cql/GoNum.lean: Go's conversion T(x) modelled as two's-complement wrap-around; int/uint are 64 bits wide",
            "Cql/TimeConv.lean: hand-written model of datacodec/math.go (addExact, multiplyExact, floorDiv, floorMod) and of the time "
            "conversions of timestamp.go, date.go, time.go on (Unix seconds, nanoseconds), with explicit wrap-around; the sign tests written "
            "with bit operations in the source are modelled as the sign comparisons they compute; tied to the Go source in two ways: the functions are "
            "REGENERATED statement by statement onto bit vectors (Cql/Gen/GoFnTime.lean, generator gofn_time) and proved equal to the model for all "
            "arguments (Cql/Lemmas/GoFnTie/Time.lean; theorems restated for the regenerated code in Props/C13AsWritten.lean), and the exported Go "
            "functions are compared with the model by the correspondence run (`conv time …`) on boundary and random values"],
        "assumptions": [
            "string parsing/formatting (strconv, big.Int.SetString), time layouts and floating point (float64→float32, big.Float) are "
            "parameters of the model: they are judged by the harness against arbitrary-precision arithmetic / bit patterns, not proved",
            "a time.Time is taken as the pair (t.Unix(), t.Nanosecond()) it holds; the calendar arithmetic of package time is not modelled",
            "the translator reports the helper bodies and switch tables faithfully (each table entry is exercised on the real codecs and "
            "compared with the regenerated helper on boundary and random values)",
            "32-bit platforms (strconv.IntSize = 32) are not covered",
        ],
    },
    "C19": {
        "gens": ["constants"],
        "lean_targets": ["Cql.Props.C19"],
        "trusted_base": COMMON_TRUST + [TRANSLATOR, HARNESS,
                         "Cql/Spec/Features.lean: hand transcription of the specs' per-version feature lists"],
        "assumptions": [
            "the translator reports the constants, case lists and predicate bodies that are in primitive/constants.go and util.go "
            "(validated on every run against the real predicates over the full 8/16-bit domains and all 256 version bytes)",
            "String() 'specific name' = the constant has its own case in the String() switch",
            "capability predicates are judged only where the specification documents pronounce (MOVED_NODE for v4+ is not judged)",
        ],
    },
    "C20": {
        "gens": ["constants", "accessors"],
        "lean_targets": ["Cql.Props.C20"],
        "trusted_base": COMMON_TRUST + [TRANSLATOR, HARNESS],
        "assumptions": [
            "the translator reports the statements of the Startup accessors and Frame mutators faithfully (validated on every run by "
            "replaying mutator/accessor sequences on the real code and the model)",
            "mutator applicability follows the doc comments in frame.go: tracing id and warnings on responses, RequestTracingId on requests",
            "'the frame still encodes and round-trips' is shown by the harness on the implementation for every explored sequence; the Lean "
            "theorem carries the flags/body invariant that C01's validity predicate requires",
        ],
    },
    "C09": {
        "gens": ["inflight"],
        "lean_targets": ["Cql.Props.C09", "Cql.Props.C09Concurrent", "Cql.Props.C09Managed"],
        "trusted_base": COMMON_TRUST + [HARNESS,
            "Cql/Inflight.lean: hand-written API-level model of client/inflight.go (one step = one handler call), tied to the code "
            "only by the correspondence run through the `verif` export shim client/verif_hooks.go"],
        "assumptions": [
            "API-level histories treat each handler call as atomic; concurrent senders are covered separately at the granularity of the two "
            "critical sections of onOutgoingFrameEnqueued (Cql/InflightMicro.lean: every interleaving), and managed ids at the granularity of "
            "borrow / look / register for senders and look up / remove / put back for the reader goroutine (Cql/ManagedMicro.lean: every "
            "interleaving); the ORDER of these steps is read off client/inflight.go on every run (Cql/Gen/InflightFacts.lean) and the "
            "theorems are stated for it; finer interleavings (inside a critical section, the id channel) rest on Go's mutex and channel "
            "semantics and are only sampled by the harness (senders racing a responder on the real handler)",
            "timers do not fire during the modelled history (timeouts are C16)",
            "the request channel capacity MaxPending is at least 1",
        ],
    },
    "C10": {
        "gens": ["inflight"],
        "lean_targets": ["Cql.Props.C10", "Cql.Props.C10Dispatch", "Cql.Props.C16AsWritten"],
        "trusted_base": COMMON_TRUST + [HARNESS,
            "Cql/Inflight.lean: hand-written API-level model of client/inflight.go, tied to the code by the correspondence run",
            "Cql/Dispatch.lean: hand-written model of CqlClientConnection.processIncomingFrame (event branch, non-blocking send on the event "
            "queue); its two parameters are regenerated from client/client.go (Cql/Gen/DispatchFacts.lean); event routing is also observed "
            "on real connections (events between responses, an event flood)"],
        "assumptions": [
            "each handler call is atomic; the receive loop is the only caller of onIncomingFrameReceived (as in client.go)",
            "timers do not fire during the modelled history; the connection context is not cancelled mid-delivery",
            "event dispatch is modelled in Cql/Dispatch.lean at the level of one incoming frame = one atomic step of the reader goroutine; "
            "event handlers are assumed to return",
        ],
    },
    "C01": {
        "lean_targets": ["Cql.Props.C01"],
        "trusted_base": COMMON_TRUST + [HARNESS, TRANSLATOR + " (constants, validity and version predicates used by the model)",
            "Cql/Impl/*, Cql/Prim.lean, Cql/DataType.lean: hand-written code-shaped model of primitive/*.go, datatype/*.go, message/*.go, "
            "frame/*.go, tied to the code by the correspondence run (decoded structure, consumed bytes and re-encoded bytes compared on "
            "generated and mutated frames of every kind, version and compression)",
            "body compressors are parameters: the theorems assume the compressor is lossless on the body at hand (C08 covers the wrappers)"],
        "assumptions": [
            "version-validity is the explicit predicate ValidFrame/ValidBody/ValidMsg (+ per-message predicates), written from the specs; "
            "the theorem C01_valid_frames_encode shows the encoder refuses no valid uncompressed frame",
            "equality is up to canonFrame/canonMsg, whose clauses are the wire-inexpressible distinctions (nil vs empty where the format "
            "has no null, IPv4 in 4 or 16 bytes, NewValue(nil) = null, fields not defined for the version, ColumnMetadata.Index)",
            "Go maps are association lists in iteration order; the theorem holds for every order",
        ],
    },
    "C03": {
        "gens": ["constants", "gofn_vint"],
        "lean_targets": ["Cql.Props.C03", "Cql.Props.C03Vint", "Cql.Props.C03AsWritten"],
        "trusted_base": COMMON_TRUST + [HARNESS, TRANSLATOR + " (constants, validity and version predicates used by the model)",
            "Cql/Impl/*, Cql/Prim.lean, Cql/DataType.lean: hand-written code-shaped model of primitive/*.go, datatype/*.go, message/*.go, "
            "frame/*.go, tied to the code by the correspondence run (decoded structure, consumed bytes and re-encoded bytes compared on "
            "generated and mutated frames of every kind, version and compression)",
            "body compressors are parameters: the theorems assume the compressor is lossless on the body at hand (C08 covers the wrappers)"],
        "assumptions": [
            "length calculators are separate transcriptions of the Go LengthOf*/EncodedLength functions",
            "vint lengths (primitive/vint.go) are covered where the vint model is present (see DESIGN.md)",
        ],
    },
    "C04": {
        "lean_targets": ["Cql.Props.C04", "Cql.Props.C04Value"],
        "trusted_base": COMMON_TRUST + [HARNESS, TRANSLATOR + " (constants and predicates used by the model)",
            "Cql/Impl/*, Cql/Prim.lean, Cql/DataType.lean: hand-written code-shaped model in which every Go panic site reachable from wire "
            "data is an explicit third outcome; tied to the code by the correspondence run over mutated inputs (outcome class and bytes "
            "consumed compared at every entry point)"],
        "assumptions": [
            "third-party decompressors (pierrec/lz4, golang/snappy) are parameters assumed not to panic; observed by the harness only",
            "termination = totality of the model functions (structural recursion on counts/fuel bounded by the input); Go stack depth "
            "and allocation volume are observed by the harness (recover, 10 s limit, heap watchdog), not proved",
            "segment decoders and the reflect-based CQL value decoders are covered where their models are present (see DESIGN.md)",
        ],
    },
    "C05": {
        "lean_targets": ["Cql.Props.C05"],
        "trusted_base": COMMON_TRUST + [HARNESS, TRANSLATOR + " (constants, validity and version predicates used by the model)",
            "Cql/Impl/*, Cql/Prim.lean, Cql/DataType.lean: hand-written code-shaped model of primitive/*.go, datatype/*.go, message/*.go, "
            "frame/*.go, tied to the code by the correspondence run (decoded structure, consumed bytes and re-encoded bytes compared on "
            "generated and mutated frames of every kind, version and compression)",
            "body compressors are parameters: the theorems assume the compressor is lossless on the body at hand (C08 covers the wrappers)"],
        "assumptions": [
            "the re-encode clause (any successfully decoded bytes re-encode and decode to an equal frame) is NOT proved: it is searched on "
            "mutated inputs by the harness; the decoder/encoder validation asymmetries it finds are listed in known_findings.txt",
            "DiscardBody on a seekable source is modelled as Seek(count, SeekCurrent), which succeeds past the end of the data",
        ],
    },
}

MANIFEST_TEXT = {
    "C15": {
        "text": "Lean theorems over a model of the connection framing logic, for every version-valid frame and any trailing bytes: a legacy stream "
                "of encodings is delivered frame by frame in order (client and server loops); ANY k envelopes packed into one self-contained "
                "segment are all delivered in order; an envelope split over non-self-contained segments at ANY split points (every part "
                "non-empty, incl. parts shorter than the envelope header) is reassembled exactly once and the accumulator is left empty; what "
                "writeSegment sends is one self-contained segment in the specification's layout whose payload is the envelope with the "
                "COMPRESSED flag clear, and the receiving side delivers exactly that frame; the layout switches exactly after READY/"
                "AUTHENTICATE of a version with the modern framing and the handshake itself is unframed and unflagged. Partial: TCP and "
                "goroutines are outside the model; the exchange is observed end to end (library client <-> library server for 6 versions x "
                "compression x auth; an independent raw TCP peer as client and as server for v5).",
        "design_ref": "DESIGN.md §5 C15",
        "note": "Partial (see text). Trusted: Lean kernel; the framing model (correspondence with the real server connection); the raw peer.",
        "technique": "Lean 4 theorems over a connection-framing model composed from the frame and segment theorems + end-to-end observation with an independent raw peer",
    },
    "C11": {
        "text": "Lean theorem by structural induction over the type tree: for every protocol version (2-byte and 4-byte collection lengths), every "
                "CQL type — all scalars, custom, and lists, sets, maps, tuples, UDTs nested to ANY depth — and every well-typed value (any integer "
                "in range, arbitrarily large varints and decimals, any float bit pattern incl. NaNs, any sizes, null elements where the format "
                "has them), decoding the encoded bytes returns the value; NULL round-trips as NULL. The Go-representation layer (every accepted "
                "Go type of the doc.go table, pointers, interface{} with the preferred type) is exercised by the harness on boundary values.",
        "design_ref": "DESIGN.md §5 C11",
        "note": "Partial for the reflection/conversion layer (harness only). Trusted: Lean kernel; the byte-level model (correspondence run).",
        "technique": "Lean 4 theorem by mutual structural induction over types and values + differential correspondence over Go representations",
    },
    "C12": {
        "text": "Lean theorems: for every type, version and well-typed value the encoder's bytes ARE the specification's serialization "
                "(big-endian two's complement of the stated width, varint = the shortest two's-complement string for EVERY integer with a proof "
                "of minimality, decimal = scale + varint, duration = three zig-zag vints with the exact vint layout for all 2^64 values, date "
                "offset by 2^31, [int]/[short] counts and lengths by version, null = length -1, tuples/UDTs as successive [bytes]), and the "
                "decoder reads the specification's bytes back to the value; the NewCodec table agrees with the spec's type table; v2 elements "
                "too long for a [short] are refused; UDT values with fewer fields than the type decode with nulls. The spec's own example tables "
                "are kernel-checked; the harness feeds them to the real codecs and compares generated values byte for byte.",
        "design_ref": "DESIGN.md §5 C12",
        "note": "Trusted: Lean kernel; hand transcription of spec §3/§5/§6; byte-level model (correspondence run).",
        "technique": "Lean 4 refinement theorems (code-shaped codec = arithmetic specification) incl. minimality of varints + differential run",
    },
    "C14": {
        "text": "Lean theorems: encoding NULL yields NULL and decoding NULL reports NULL for every type; an empty byte string is NULL for every "
                "type except the string/blob codecs; a null at ANY element, value or field position of lists, sets, maps, tuples and UDTs "
                "(any nesting) survives the round trip for versions with 4-byte lengths; for v2, encoding a collection with a null element, key "
                "or value is never successful, while tuple/UDT fields may be null in every version. The harness covers every accepted nil-able "
                "Go source and pre-filled destination type.",
        "design_ref": "DESIGN.md §5 C14",
        "note": "Partial for the Go-representation layer (harness only). Trusted: as C11.",
        "technique": "Lean 4 theorems over the value model (null positions by induction over the type tree) + differential correspondence",
    },
    "C16": {
        "text": "Lean theorems over a timed model of the in-flight request life-cycle, for EVERY history of {send, response page, last page, "
                "passing of time, handler close}: the channel of a request is closed at most once (no double-close panic) and IsDone holds "
                "exactly when it is closed; closing the handler completes every pending request with a non-nil error, leaves no timer running "
                "and refuses later sends and deliveries; every unfinished request has exactly one live timer, due one read timeout after its "
                "last activity; a request fails with the timeout error only after a full read timeout of silence (never while pages keep "
                "arriving) and does fail once that time has passed. Partial: Close returning, blocked callers returning, goroutines not "
                "surviving and absence of panics in the connection goroutines are runtime behaviour the model cannot exhibit; they are "
                "observed on the real client/server with close, server close, context cancellation and TCP loss injected at every step "
                "boundary, with and without concurrent senders/receivers (each scenario in its own process).",
        "design_ref": "DESIGN.md §5 C16",
        "note": "Partial (see text). Trusted: Lean kernel; the timed model (real-time correspondence); the fault-injection harness.",
        "technique": "Lean 4 invariant proof over all timed histories of a life-cycle model + real-time trace correspondence + fault-injection observation",
    },
    "C02": {
        "text": "Lean refinement theorems between two independently written models: for every supported version, every message kind (all ERROR, "
                "RESULT, EVENT variants, every optional-field subset, nested column types) and every version-valid frame, the code-shaped "
                "encoder (tied to the Go code by the correspondence runs) emits exactly the bytes of the specification-shaped layout written "
                "from the six spec documents — header with direction bit and stream-id width, flag widths, field order and presence, every "
                "notation; the decoder reads specification-formatted bytes back to the frame; compressed frames carry the compressor's output "
                "on the specification's body; every one of the 2^16 (version byte, opcode) combinations that breaks the documents is refused "
                "(structural proof + kernel-decided byte tables). The harness compares the real encoder's bytes with the executable Spec "
                "functions, runs all 2^16 headers through the real decoder, and decodes hand-written specification-formatted frames.",
        "design_ref": "DESIGN.md §5 C02",
        "note": "Trusted: Lean kernel; the hand transcription of the specs; the code-shaped model (correspondence). Known findings: spec-defined "
                "error codes without a message type.",
        "technique": "Lean 4 refinement theorems (code-shaped encoder = spec-shaped layout) + exhaustive header table + differential run against the executable spec",
    },
    "C07": {
        "text": "ChecksumKoopman as REGENERATED from crc/crc24.go on every run is proved to be the CRC of these theorems (Props/C06AsWritten, C07AsWritten). "
                "Lean theorems over a BitVec model of the CRC-24/CRC-32 code and the segment decoder: CRC-24 is xor-linear and no nonzero error "
                "of total weight <= 7 over header data + CRC bits is a codeword (complete enumeration of the 3- and 5-byte cases, lifted by "
                "linearity to every header value), so every 1..7-bit corruption of an encoded header is rejected with a CRC error, for every "
                "header; CRC-32 is linear and its bit step injective, so every burst of <= 32 bits and every single bit anywhere in payload + "
                "trailer is rejected for payloads of ANY length, and every two-bit error for payloads up to the format limit (period > "
                "1,048,832, kernel-checked in chunks). The harness enumerates flips on the real decoder.",
        "design_ref": "DESIGN.md §5 C07",
        "note": "Trusted: Lean kernel + (for the five CRC-24 theorems only) native evaluation of two enumerations; the BitVec model of the CRC code.",
        "technique": "Lean 4 theorems (linearity + exhaustive enumeration of error patterns; native_decide confined to two named enumerations)",
    },
    "C18": {
        "text": "Generic Lean theorem: threads that only read what they share end, under EVERY interleaving, with exactly the results of their "
                "own calls made one after another (induction over schedules). Per run, on data regenerated from the SSA form of the Go source, the "
                "kernel decides that every function reachable from a codec entry point (frame, raw, segment, message, CQL value codecs, "
                "compressors, primitives; interface calls resolved to all implementations) writes no package-level variable and no field of a "
                "shared codec/compressor/singleton, and that package-level variables are written by init only. The stress harness compares "
                "concurrent with sequential results under the Go race detector.",
        "design_ref": "DESIGN.md §5 C18",
        "note": "Partial: absence of data races in the Go memory model is observed (race detector), not proved; soundness rests on the effect "
                "extraction (trusted) and on third-party code being thread-safe.",
        "technique": "Lean 4 theorem (interleaving = sequential under read-only sharing) + kernel-decided effect facts regenerated from Go SSA",
    },
    "C17": {
        "text": "Lean meta-theorem over a heap model (trees with located reference nodes, fresh-location allocator): for ANY environment of "
                "struct types, any shape, any copy plan that covers the shape, and EVERY value of that shape (all fields populated or nil, any "
                "sizes and nesting), the executed copy equals the original up to locations and every location reachable from it is fresh, "
                "hence a write through any location of the copy leaves the original unchanged and the reverse. Per run the kernel decides "
                "that the environment regenerated from the Go source (64 struct types, Message and DataType dispatch, UUID) is covered. "
                "The harness walks the real DeepCopy results reflectively and compares shared positions with the model's prediction.",
        "design_ref": "DESIGN.md §5 C17",
        "note": "Trusted: Lean kernel; the translator's reading of struct declarations and generated copy code (literal statement forms); the "
                "heap value model. The reflective walk validates the translator and supplies failing inputs.",
        "technique": "Lean 4 meta-theorem (induction over heap values) + kernel-decided coverage of shapes/plans regenerated from the Go source",
    },
    "C06": {
        "text": "The header words, the CRC-24 loop, the decoder's field extraction and the header length are REGENERATED from segment/encode.go, segment/decode.go and crc/crc24.go on every run and proved equal to the model; the header word round trip is proved for the code as written (Props/C06AsWritten). "
                "Lean theorems over a code-shaped model of segment/*.go and crc/*.go: for every payload of at most 131071 bytes, either "
                "self-contained flag, with or without a payload compressor, decoding the encoded segment (followed by any bytes) returns "
                "the payload, flag and lengths and leaves exactly the following bytes; the emitted bytes equal the v5 specification's "
                "layout (little-endian header fields, 17-bit lengths, flag bit 17/34, CRC-24 over 3/5 header bytes, seeded CRC-32 "
                "trailer; compressed form only when smaller, else uncompressed-length 0); larger payloads are refused by the encoder; "
                "all constants tied to the regenerated Gen/CrcFacts.",
        "design_ref": "DESIGN.md §5 C06",
        "note": "Trusted: Lean kernel; the hand-written segment/CRC model (byte-for-byte correspondence run incl. an independent reference "
                "layout in the harness); the compressor is a parameter (see C08).",
        "technique": "Lean 4 theorems (round trip + refinement to a spec-shaped layout) on a code-shaped model + differential correspondence",
    },
    "C08": {
        "text": "Lean theorems over a model of the LZ4 and Snappy wrappers: under the stated contract of the third-party block functions, "
                "Decompress(Compress x) = x and DecompressWithLength(CompressWithLength x) = x consuming the whole input, for EVERY byte "
                "string (empty, any size below the 32-bit prefix, any ratio up to the block format's 255:1 — the buffer-growing loop is "
                "proved to reach the needed size within its bound); consequences: the frame codec's Lossless premise (C01) and the "
                "segment codec's LosslessOn premise (C06) hold for these compressors, and a frame with and without the COMPRESSED flag "
                "decodes to the same body.",
        "design_ref": "DESIGN.md §5 C08",
        "note": "Trusted: Lean kernel; the wrapper model (compared with the real wrappers on every run, block functions as oracles); the "
                "block-codec contract Lz4Law/SnappyLaw is an assumption about third-party code, observed per input, not proved.",
        "technique": "Lean 4 theorems parametric in a block-codec contract + differential correspondence of the wrapper logic",
    },
    "C13": {
        "text": "The overflow-checked arithmetic of math.go and the time/date/timestamp conversions are REGENERATED statement by statement from the Go source onto bit vectors on every run and proved equal to the model (tie lemmas), and the theorems are restated for the regenerated code (Props/C13AsWritten). "
                "Lean theorems over code regenerated from conversions.go and the numeric codecs: each of the 54 integer helpers, as a "
                "function on ALL mathematical integers of its source kind, either returns the same value (representable in the target) or "
                "an error, and errs only when the value does not fit (exact-or-error, no spurious refusal); and every entry of every "
                "convertTo*/convertFrom* type switch of the integer codecs — every (CQL integer type, Go integer type) pair, by value and "
                "by pointer, both directions — is a value-preserving cast or one of those helpers with exactly the right kinds. "
                "Temporal types (hand-written model of math.go and the time conversions, tied by correspondence): for every int64 count of "
                "seconds and every nanosecond part, time.Time→timestamp yields ⌊(s·10⁹+ns)/10⁶⌋ or an error exactly when that leaves 64 bits; "
                "timestamp→time.Time is its exact inverse on all of int64; time.Time→date yields ⌊s/86400⌋ or an error exactly when that "
                "leaves 32 bits; date→time.Time never overflows; a time.Duration is accepted exactly within [0, 24 h).",
        "design_ref": "DESIGN.md §5 C13",
        "note": "Trusted: Lean kernel; the translator; wrap-around semantics of Go conversions; the hand-written time-conversion model. "
                "Floats, strings and layouts are differential only (partial).",
        "technique": "Lean 4 theorems (omega over wrap-around arithmetic) about functions and tables regenerated from the Go source",
    },
    "C19": {
        "text": "Lean theorems over the regenerated constant tables: for every code type the validity check accepts exactly the "
                "declared constants over the whole Nat / byte-string domain (not a sample), every declared constant has its own "
                "String() case, opcodes are exactly one of request/response over all of Nat, Check* helpers agree with the "
                "predicates, and for every supported version every capability predicate equals the specs' feature table. "
                "Proof is the right level: the quantifier is the complete code space, which a table test cannot enumerate.",
        "design_ref": "DESIGN.md §5 C19",
        "note": "Trusted: Lean kernel; the translator's reading of constants.go/util.go (validated each run against the real "
                "predicates on the full 8/16-bit domains, 32-bit boundaries and all 256 version bytes); the hand transcription "
                "of the specs' feature lists in Cql/Spec/Features.lean.",
        "technique": "Lean 4 kernel-checked theorems over tables regenerated from the Go source (decidable set equality lifted to ∀ x)",
    },
    "C20": {
        "text": "Lean theorems over functions regenerated from frame/frame.go and message/startup.go: after ANY finite sequence of "
                "applicable mutator calls with arbitrary arguments the header flags reflect exactly the body parts present and "
                "compression is never flagged for STARTUP/OPTIONS/READY (inductive invariant over all histories; flag algebra decided "
                "over the complete 8-bit flag domain); every STARTUP setter stores what its getter returns and touches no other key, "
                "and any history of setter calls behaves like an abstract record of seven independent options (refinement).",
        "design_ref": "DESIGN.md §5 C20",
        "note": "Trusted: Lean kernel; the translator's reading of the accessor/mutator bodies; the harness for the 'still encodes and "
                "round-trips' clause (checked on the implementation for explored sequences, and by C01's theorem for valid frames).",
        "technique": "Lean 4 invariant-by-induction and refinement theorems over functions regenerated from the Go source",
    },
    "C09": {
        "text": "Lean theorems over an executable model of the in-flight handler: an inductive invariant (every id of 1..N is in exactly "
                "one of pool / in-flight map, sizes add up to N, entries point at live requests with that id) holds in EVERY state "
                "reachable by ANY finite history of managed sends, deliveries (final or not, known or unknown id), consumer reads and "
                "close, for every N; from it: accepted sends get a fresh id in 1..N, the N+1-st is refused without state change, a final "
                "response returns the id, after all are answered N more sends succeed; explicit reuse of an in-flight id is refused in "
                "any state. The model is compared with the real handler output-by-output on exhaustive small and random long histories.",
        "design_ref": "DESIGN.md §5 C09",
        "note": "Trusted: Lean kernel; the hand-written model (tied by differential runs through client/verif_hooks.go, build tag verif). "
                "Goroutine interleavings: micro-step models (caller-chosen ids: the two critical sections of a send; managed ids: borrow / look / "
                "register against look up / remove / put back) are proved safe for EVERY interleaving, with the step order regenerated from "
                "client/inflight.go; what happens inside a critical section rests on Go's mutex and channel semantics.",
        "technique": "Lean 4 invariant by induction over operation histories of an executable state-machine model + differential correspondence",
    },
    "C10": {
        "text": "Lean theorems over the same model, for every state and history with arbitrary (managed or explicit) ids: a frame for an "
                "unknown id changes nothing; a delivery touches no request other than the one registered under its id; on success the "
                "frame is appended exactly once after all earlier ones and the request completes exactly on the last page; in every "
                "reachable state the request registered under id k was sent with id k; consumers read frames in acceptance order. "
                "Event dispatch (Cql/Dispatch.lean, for every sequence of incoming frames): events never touch a request, responses never "
                "enter the event queue or a handler whatever their stream ids, the handler sees exactly the non-event frames in order, the "
                "reader never stalls on a full event queue; the model's two parameters (branch on the opcode, non-blocking queue send) are "
                "regenerated from client/client.go and a failing history is exhibited for each variant.",
        "design_ref": "DESIGN.md §5 C10",
        "note": "Trusted: Lean kernel; the hand-written models (differentially tied to the real handler; dispatch facts regenerated from the "
                "source). The v5 segment path is exercised by the harness / C15, not proved here.",
        "technique": "Lean 4 per-step frame/refinement theorems + reachable-state invariant over an executable model + differential correspondence",
    },
    "C01": {
        "text": "Lean theorem C01_frame_roundtrip over the code-shaped model of the whole frame codec (about 40 message kinds, all notations, "
                "nested type descriptors, header, optional body parts, compressed and uncompressed bodies): for EVERY version-valid frame, "
                "every supported version, any compressor lossless on the body, and ANY bytes following the frame, decode(encode f ++ rest) = "
                "(canon f, rest). Built from one round-trip lemma per notation / message, by structural induction over lists and type "
                "trees — no bound on sizes, depth, rows or children. Plus: the encoder refuses no valid frame. The model is tied to the Go "
                "code by a differential run over every kind × version × compression, comparing decoded structure and bytes.",
        "design_ref": "DESIGN.md §5 C01",
        "note": "Trusted: Lean kernel; the hand-written model (differentially tied on every run); translator for the constants/predicates; "
                "LZ4/Snappy block codecs are parameters (losslessness assumed for the body at hand).",
        "technique": "Lean 4 round-trip theorems by structural induction over a code-shaped model + differential correspondence",
    },
    "C03": {
        "text": "The vint length and zig-zag code is REGENERATED from primitive/vint.go on every run and proved equal to the model (Props/C03AsWritten). "
                "Lean theorems: every primitive LengthOf* equals the bytes its writer emits over the whole value domain; every message's "
                "EncodedLength equals its encoder's output for every valid message; the body length in the header equals the emitted body "
                "bytes with and without compression; the decoder consumes exactly header + declared length (arbitrary trailing bytes are "
                "left); and by induction over the sequence, any finite list of frames written back-to-back decodes to the same list with "
                "nothing left over.",
        "design_ref": "DESIGN.md §5 C03",
        "note": "Trusted: as C01. The length calculators are transcribed separately from the writers and compared with the Go ones "
                "differentially (declared vs emitted vs EncodedLength on every generated frame; back-to-back streams).",
        "technique": "Lean 4 length theorems + induction over frame sequences on a code-shaped model + differential correspondence",
    },
    "C04": {
        "text": "Lean theorems: no byte string of any length drives any modelled decoder into a panic site — every primitive reader, type "
                "descriptors to any depth, every message body decoder for every opcode byte and version number, header, body, frame "
                "(for every compressor that does not itself panic), raw frame, ConvertFromRawFrame. Panic sites (make with a negative "
                "length, index out of range, nil dereference) are explicit outcomes of the model, so this is a theorem and not a side "
                "effect of totality. The model's outcome class is compared with the real decoders on tens of thousands of mutated inputs.",
        "design_ref": "DESIGN.md §5 C04",
        "note": "Partial: third-party decompressors, reflect-based value decoders, Go stack depth and allocation volume are observed only.",
        "technique": "Lean 4 compositional no-panic theorems over a model with explicit panic outcomes + differential mutation testing",
    },
    "C05": {
        "text": "Lean theorems for every version-valid frame and every trailing byte string: DecodeRawFrame reads header + exactly the "
                "declared body and ConvertFromRawFrame gives DecodeFrame's result; ConvertToRawFrame+EncodeRawFrame and EncodeHeader+"
                "EncodeBody write EncodeFrame's bytes; after DecodeHeader, DecodeRawBody and DiscardBody (copying and seeking) leave exactly "
                "the bytes that follow the frame. The re-encode clause is searched (not proved) on mutated inputs; its violations on the "
                "unchanged tree are decoder-lenient/encoder-strict asymmetries recorded as known findings.",
        "design_ref": "DESIGN.md §5 C05",
        "note": "Trusted: as C01. Partial: the re-encode clause over all decodable inputs is explored by mutation, not proved.",
        "technique": "Lean 4 theorems relating partial codec paths on a code-shaped model + differential correspondence + mutation search",
    },
}

_UNBUILT = "check not built yet in this session (work in progress; the technique applies, see DESIGN.md §5)"
NOT_CLAIMED = {f"C{i:02d}": _UNBUILT for i in range(1, 21)}
