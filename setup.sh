#!/bin/sh
# Builds the framework from files on disk only (offline): translator, harness, Lean model, theorems, driver.
set -e
cd "$(dirname "$0")"
export GOFLAGS=-mod=mod GOPROXY=off GOSUMDB=off GOTOOLCHAIN=local
mkdir -p bin evidence/replays
[ -f go/go.sum ] || cp /repo/go.sum go/go.sum
(cd go && go build -o ../bin/verif-extract ./cmd/verif-extract && go build -tags verif -o ../bin/verif-harness ./cmd/verif-harness)
./bin/verif-extract -repo /repo -out lean/Cql/Gen
(cd lean && lake build Cql Driver Audit driver)
echo setup done
