#!/bin/bash
# seedlanes.sh <n-lanes> <seed-spec>... : runs seedtest.py for the given seeds (e.g. C05@5:1) in parallel lanes.
# Each lane is a private copy of /verif (with its build output) under /tmp/lane<i>/verif working against its own scratch git worktree
# of /repo at /tmp/lane<i>/repo, so /repo itself is never touched. Results (seeded/<id>/) are copied back to /verif/seeded.
# Lanes are removed at the end.
set -u
N=$1; shift
export GOFLAGS=-mod=mod GOPROXY=off GOSUMDB=off GOTOOLCHAIN=local
i=0
for spec in "$@"; do lanes[$((i % N))]+=" $spec"; i=$((i+1)); done
for l in $(seq 0 $((N-1))); do
  [ -n "${lanes[$l]:-}" ] || continue
  (
    L=/tmp/lane$l
    rm -rf $L; mkdir -p $L
    git -C /repo worktree remove --force $L/repo >/dev/null 2>&1
    git -C /repo worktree add --detach $L/repo HEAD >/dev/null 2>&1
    rsync -a --exclude .git --exclude evidence/replays /verif/ $L/verif/
    sed -i "s#=> /repo#=> $L/repo#" $L/verif/go/go.mod
    rm -f $L/verif/.lock
    cd $L/verif
    SEED_VERIF=$L/verif VERIF_REPO=$L/repo SEED_TIERS=${SEED_TIERS:-quick} ./seedtest.py ${lanes[$l]} > $L/log 2>&1
    for spec in ${lanes[$l]}; do
      pid=${spec%%@*}; rest=${spec#*@}; rnd=${rest%%:*}; k=${rest#*:}
      d=$pid-r${rnd}m$k
      [ -d $L/verif/seeded/$d ] && rsync -a $L/verif/seeded/$d/ /verif/seeded/$d/
    done
    cat $L/log
    git -C /repo worktree remove --force $L/repo >/dev/null 2>&1
    rm -rf $L
  ) &
done
wait
